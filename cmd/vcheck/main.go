// vcheck drives the solver-based checks: `vcheck run <ID> --tier quick|thorough`,
// `vcheck worker ...` (internal), `vcheck replay <file>`, `vcheck list`.
package main

import (
	"bufio"
	"encoding/json"
	"flag"
	"fmt"
	"os"
	"os/exec"
	"path/filepath"
	"runtime"
	"runtime/debug"
	"runtime/pprof"
	"sort"
	"strconv"
	"strings"
	"sync"
	"syscall"
	"time"

	"verif/internal/smt"
	"verif/internal/sym"
)

// verifDir and repoDir are fixed in registered commands; the environment overrides exist for
// developing the machinery against a scratch copy while a registered run is in progress.
var verifDir = envOr("VERIF_DIR", "/verif")
var repoDir = envOr("VERIF_REPO", "/repo")

func envOr(k, d string) string {
	if v := os.Getenv(k); v != "" {
		return v
	}
	return d
}

func main() {
	if len(os.Args) < 2 {
		usage()
	}
	switch os.Args[1] {
	case "run":
		os.Exit(cmdRun(os.Args[2:]))
	case "worker":
		os.Exit(cmdWorker(os.Args[2:]))
	case "replay":
		os.Exit(cmdReplay(os.Args[2:]))
	case "list":
		for _, p := range allProps() {
			fmt.Printf("%s  %s\n", p.ID, p.Title)
		}
	default:
		usage()
	}
}

func usage() {
	fmt.Fprintln(os.Stderr, "usage: vcheck run <ID> [--tier quick|thorough] [--workers N] [--only substr] | replay <file> | list")
	os.Exit(2)
}

// ---------------------------------------------------------------- worker

type workerOut struct {
	Result        *sym.JobResult `json:"result,omitempty"`
	Functions     []string       `json:"functions,omitempty"`
	Models        []string       `json:"models,omitempty"`
	StdGlob       []string       `json:"std_globals,omitempty"`
	Solver        *smt.Stats     `json:"solver,omitempty"`
	Terms         int            `json:"terms,omitempty"`
	InitSec       float64        `json:"init_sec,omitempty"`
	Fatal         string         `json:"fatal,omitempty"`
	Scan          []string       `json:"scan,omitempty"`
	ScanFunctions int            `json:"scan_functions,omitempty"`
	ScanDone      bool           `json:"scan_done,omitempty"`
}

func cmdWorker(args []string) int {
	fs := flag.NewFlagSet("worker", flag.ExitOnError)
	prop := fs.String("prop", "", "property id")
	jobsFile := fs.String("jobs", "", "jobs json")
	outFile := fs.String("out", "", "output jsonl")
	solver := fs.String("solver", "z3", "z3|z3-new|cvc5")
	timeout := fs.Int("timeout", 60000, "per-query timeout ms")
	verbose := fs.Bool("v", false, "verbose")
	prof := fs.String("cpuprofile", "", "write cpu profile")
	scan := fs.Bool("scan-global-writes", false, "also run the syntactic scan for stores into package-level state")
	fs.Parse(args)
	if *prof != "" {
		f, _ := os.Create(*prof)
		pprof.StartCPUProfile(f)
		defer pprof.StopCPUProfile()
	}
	debug.SetGCPercent(400)
	out, err := os.Create(*outFile)
	if err != nil {
		fmt.Fprintln(os.Stderr, err)
		return 2
	}
	defer out.Close()
	w := bufio.NewWriter(out)
	defer w.Flush()
	emit := func(o workerOut) {
		b, _ := json.Marshal(o)
		w.Write(b)
		w.WriteByte('\n')
		w.Flush()
	}
	pd := propByID(*prop)
	if pd == nil {
		emit(workerOut{Fatal: "unknown property " + *prop})
		return 2
	}
	var jobs []sym.Job
	b, err := os.ReadFile(*jobsFile)
	if err == nil {
		err = json.Unmarshal(b, &jobs)
	}
	if err != nil {
		emit(workerOut{Fatal: err.Error()})
		return 2
	}
	t0 := time.Now()
	overlay, err := pd.overlay()
	if err != nil {
		emit(workerOut{Fatal: "overlay: " + err.Error()})
		return 2
	}
	eng, err := sym.Load(verifDir, overlay, pd.Patterns...)
	if err != nil {
		emit(workerOut{Fatal: "load: " + err.Error()})
		return 2
	}
	sv, err := smt.New(*solver, *timeout)
	if err != nil {
		emit(workerOut{Fatal: "solver: " + err.Error()})
		return 2
	}
	defer sv.Close()
	eng.Solver = sv
	if lf := os.Getenv("VERIF_SMTLOG"); lf != "" {
		if f, err := os.Create(lf); err == nil {
			sv.Log = f
			defer f.Close()
		}
	}
	eng.Verbose = *verbose
	eng.NoPCRestore = os.Getenv("VERIF_NO_PC_RESTORE") != ""
	eng.NoMerge = os.Getenv("VERIF_NO_MERGE") != ""
	eng.PermuteMaps = pd.PermuteMaps
	if pd.Unwind > 0 {
		eng.Unwind = pd.Unwind
	}
	eng.Findings = loadFindings(pd.ID)
	if *solver == pd.solver() {
		eng.FallbackKinds = pd.fallbacks()
	}
	if err := eng.Init(); err != nil {
		emit(workerOut{Fatal: err.Error()})
		return 2
	}
	if pd.Setup != "" {
		if err := eng.RunSetup(pd.SetupPkg, pd.Setup); err != nil {
			emit(workerOut{Fatal: "setup: " + err.Error()})
			return 2
		}
	}
	initSec := time.Since(t0).Seconds()
	debug.SetGCPercent(200) // 400 while the bus tables are built, lower once the base state exists
	if *scan {
		hits, nfn := eng.GlobalWriteScan()
		emit(workerOut{Scan: hits, ScanFunctions: nfn, ScanDone: true})
	}
	for _, j := range jobs {
		r := eng.RunJob(j)
		emit(workerOut{Result: &r})
	}
	st := sv.Stats
	fst := eng.Close()
	st.Queries += fst.Queries
	st.SolverSec += fst.SolverSec
	emit(workerOut{Functions: eng.FunctionsEncoded(), Models: eng.ModelsUsed(), StdGlob: eng.StdGlobalsRead(), Solver: &st, InitSec: initSec})
	return 0
}

// ---------------------------------------------------------------- findings file

type findingsFile struct {
	Findings []sym.Finding `json:"findings"`
}

func loadFindings(prop string) []sym.Finding {
	b, err := os.ReadFile(filepath.Join(verifDir, "known-findings.json"))
	if err != nil {
		return nil
	}
	var ff findingsFile
	if err := json.Unmarshal(b, &ff); err != nil {
		fmt.Fprintln(os.Stderr, "known-findings.json:", err)
		return nil
	}
	var out []sym.Finding
	for _, f := range ff.Findings {
		if f.Property == prop {
			out = append(out, f)
		}
	}
	return out
}

// ---------------------------------------------------------------- driver

type runSummary struct {
	scan       []string
	scanFns    int
	scanDone   bool
	jobs       int
	results    []*sym.JobResult
	functions  map[string]bool
	models     map[string]bool
	stdGlobals map[string]bool
	solver     smt.Stats
	fatal      []string
	initSec    float64
}

func runWorkers(pd *PropDef, jobs []sym.Job, workers int, solver string, timeoutMs int, work string, tag string) *runSummary {
	sum := &runSummary{jobs: len(jobs), functions: map[string]bool{}, models: map[string]bool{}, stdGlobals: map[string]bool{}}
	if workers > len(jobs) {
		workers = len(jobs)
	}
	if workers < 1 {
		workers = 1
	}
	// round-robin split keeps expensive neighbours apart
	chunks := make([][]sym.Job, workers)
	for i, j := range jobs {
		chunks[i%workers] = append(chunks[i%workers], j)
	}
	self, _ := os.Executable()
	var mu sync.Mutex
	var wg sync.WaitGroup
	for wi := 0; wi < workers; wi++ {
		wg.Add(1)
		go func(wi int) {
			defer wg.Done()
			jf := filepath.Join(work, fmt.Sprintf("jobs-%s%s-%d.json", solver, tag, wi))
			of := filepath.Join(work, fmt.Sprintf("out-%s%s-%d.jsonl", solver, tag, wi))
			b, _ := json.Marshal(chunks[wi])
			os.WriteFile(jf, b, 0o644)
			args := []string{"worker", "--prop", pd.ID, "--jobs", jf, "--out", of, "--solver", solver, "--timeout", strconv.Itoa(timeoutMs)}
			if wi == 0 && strings.Contains(tag, "scan") {
				args = append(args, "--scan-global-writes")
			}
			cmd := exec.Command(self, args...)
			cmd.SysProcAttr = &syscall.SysProcAttr{Pdeathsig: syscall.SIGKILL} // no orphan workers if the driver is killed
			cmd.Dir = verifDir
			cmd.Env = append(os.Environ(), "GOFLAGS=-mod=mod", "GOPROXY=off", "GOSUMDB=off", "GOTOOLCHAIN=local")
			outb, err := cmd.CombinedOutput()
			mu.Lock()
			defer mu.Unlock()
			if err != nil {
				sum.fatal = append(sum.fatal, fmt.Sprintf("worker %d: %v: %s", wi, err, tail(string(outb), 2000)))
			}
			f, err := os.Open(of)
			if err != nil {
				sum.fatal = append(sum.fatal, fmt.Sprintf("worker %d produced no output", wi))
				return
			}
			defer f.Close()
			sc := bufio.NewScanner(f)
			sc.Buffer(make([]byte, 1<<20), 1<<28)
			got := 0
			for sc.Scan() {
				var o workerOut
				if err := json.Unmarshal(sc.Bytes(), &o); err != nil {
					sum.fatal = append(sum.fatal, "bad worker output: "+err.Error())
					continue
				}
				if o.Fatal != "" {
					sum.fatal = append(sum.fatal, o.Fatal)
				}
				if o.ScanDone {
					sum.scan, sum.scanFns, sum.scanDone = o.Scan, o.ScanFunctions, true
				}
				if o.Result != nil {
					sum.results = append(sum.results, o.Result)
					got++
				}
				for _, s := range o.Functions {
					sum.functions[s] = true
				}
				for _, s := range o.Models {
					sum.models[s] = true
				}
				for _, s := range o.StdGlob {
					sum.stdGlobals[s] = true
				}
				if o.Solver != nil {
					sum.solver.Queries += o.Solver.Queries
					sum.solver.Sat += o.Solver.Sat
					sum.solver.Unsat += o.Solver.Unsat
					sum.solver.Unknown += o.Solver.Unknown
					sum.solver.SolverSec += o.Solver.SolverSec
					if o.Solver.MaxSec > sum.solver.MaxSec {
						sum.solver.MaxSec = o.Solver.MaxSec
					}
					if o.InitSec > sum.initSec {
						sum.initSec = o.InitSec
					}
				}
			}
			if got != len(chunks[wi]) {
				sum.fatal = append(sum.fatal, fmt.Sprintf("worker %d finished %d of %d jobs", wi, got, len(chunks[wi])))
			}
		}(wi)
	}
	wg.Wait()
	sort.Slice(sum.results, func(i, j int) bool { return sum.results[i].Job.ID < sum.results[j].Job.ID })
	return sum
}

func tail(s string, n int) string {
	if len(s) > n {
		return "..." + s[len(s)-n:]
	}
	return s
}

func keys(m map[string]bool) []string {
	var out []string
	for k := range m {
		out = append(out, k)
	}
	sort.Strings(out)
	return out
}

func cmdRun(args []string) int {
	if len(args) < 1 {
		usage()
	}
	id := args[0]
	fs := flag.NewFlagSet("run", flag.ExitOnError)
	tier := fs.String("tier", "quick", "quick|thorough")
	workers := fs.Int("workers", runtime.NumCPU(), "parallel workers")
	only := fs.String("only", "", "run only jobs whose id contains this")
	noReplay := fs.Bool("no-replay", false, "skip native replay of counterexamples")
	keep := fs.Bool("keep", false, "keep work directory")
	fs.Parse(args[1:])
	if t := os.Getenv("VERIF_TIER"); t != "" && !isFlagSet(fs, "tier") {
		*tier = t
	}
	seed := int64(1)
	if s := os.Getenv("VERIF_SEED"); s != "" {
		if v, err := strconv.ParseInt(s, 10, 64); err == nil {
			seed = v
		}
	}
	pd := propByID(id)
	if pd == nil {
		fmt.Fprintln(os.Stderr, "unknown property", id)
		return 2
	}
	t0 := time.Now()
	work := filepath.Join(verifDir, ".work", fmt.Sprintf("%s-%d", id, os.Getpid()))
	os.MkdirAll(work, 0o755)
	if !*keep {
		defer os.RemoveAll(work)
	}
	if pd.Meta != nil {
		return runMeta(pd, *tier, seed, *workers, work, *only)
	}
	jobs := pd.Jobs(*tier)
	if *only != "" {
		var f []sym.Job
		for _, j := range jobs {
			if strings.Contains(j.ID, *only) {
				f = append(f, j)
			}
		}
		jobs = f
	}
	rep := newReport(pd, *tier, seed)
	if pd.InPkgProbe != nil {
		if msg := pd.InPkgProbe(work); msg != "" {
			os.Setenv(noInPkgEnv, "1")
			var f []sym.Job
			for _, j := range jobs {
				if j.Pkg != pd.OptionalInPkg {
					f = append(f, j)
				}
			}
			fmt.Printf("NOTE property=%s the in-package harness does not compile against this tree and its %d jobs were skipped (unexported identifiers changed?): %s\n", pd.ID, len(jobs)-len(f), strings.ReplaceAll(strings.TrimSpace(msg), "\n", " | "))
			rep.assumptions["in-package harness skipped: it does not compile against this tree (it reads unexported fields); the jobs through the public API remain"] = true
			jobs = f
		}
	}
	if pd.PreCheck != nil {
		rep.incon = append(rep.incon, pd.PreCheck()...)
	}
	// conformance vectors (concrete engine runs compared with native runs) ride along in the same workers
	nconf := pd.ConformanceQuick
	if *tier == "thorough" {
		nconf = pd.ConformanceThorough
	}
	var confJobs []sym.Job
	if nconf > 0 && !*noReplay && len(jobs) > 0 {
		for i := 0; i < nconf; i++ {
			j := jobs[(i*7919)%len(jobs)]
			sd := uint64(seed) + uint64(i)
			j.Seed = &sd
			j.ID = fmt.Sprintf("%s#seed%d", j.ID, sd)
			confJobs = append(confJobs, j)
		}
	}
	// the native replayer is built while the workers run
	var replayerBin string
	var replayerErr error
	var wg sync.WaitGroup
	if !*noReplay {
		wg.Add(1)
		go func() {
			defer wg.Done()
			replayerBin, replayerErr = buildReplayer(pd, work)
		}()
	}
	sum := runWorkers(pd, append(append([]sym.Job{}, jobs...), confJobs...), *workers, pd.solver(), pd.timeoutMs(*tier), work, "")
	var confRes []*sym.JobResult
	var symRes []*sym.JobResult
	for _, r := range sum.results {
		if r.Job.Seed != nil {
			confRes = append(confRes, r)
		} else {
			symRes = append(symRes, r)
		}
	}
	sum.results = symRes
	sum.jobs = len(jobs)
	rep.absorb(sum, pd.solver())
	// thorough: re-discharge with the other solvers
	if *tier == "thorough" && !pd.SingleSolver {
		for _, sv := range []string{"cvc5", "z3-new", "z3"} {
			if sv == pd.solver() || (sv == "z3" && pd.solver() != "z3") {
				continue
			}
			s2 := runWorkers(pd, jobs, *workers, sv, pd.timeoutMs(*tier), work, "")
			rep.crossCheck(s2, sv)
		}
	}
	wg.Wait()
	if !*noReplay && replayerErr != nil {
		rep.incon = append(rep.incon, replayerErr.Error())
	}
	rep.replayer = replayerBin
	if len(confJobs) > 0 && replayerErr == nil {
		rep.conformance(confJobs, confRes, work)
	}
	if !*noReplay {
		rep.replayAll(work)
	}
	rep.wall = time.Since(t0).Seconds()
	code := rep.finish()
	return code
}

func isFlagSet(fs *flag.FlagSet, name string) bool {
	set := false
	fs.Visit(func(f *flag.Flag) {
		if f.Name == name {
			set = true
		}
	})
	return set
}

// runMeta decides a property (C18) through the write-set monitor of the jobs of other properties.
func runMeta(pd *PropDef, tier string, seed int64, workers int, work string, only string) int {
	t0 := time.Now()
	rep := newReport(pd, tier, seed)
	total := &runSummary{functions: map[string]bool{}, models: map[string]bool{}, stdGlobals: map[string]bool{}}
	var scanHits []string
	scanFns := 0
	scanDone := false
	for _, src := range pd.Meta(tier) {
		sp := propByID(src.ID)
		if sp == nil {
			rep.incon = append(rep.incon, "unknown source property "+src.ID)
			continue
		}
		// thorough: every job of the source property's quick list (stride 1); the thorough lists of
		// C13/C15/C16 alone would be several hundred thousand jobs that add no new code paths
		all := sp.Jobs("quick")
		var jobs []sym.Job
		for i, j := range all {
			if only != "" && !strings.Contains(j.ID, only) {
				continue
			}
			if src.Stride <= 1 || i%src.Stride == int(seed)%src.Stride {
				j.ID = pd.ID + "<-" + j.ID
				jobs = append(jobs, j)
			}
		}
		if len(jobs) == 0 {
			continue
		}
		tag := "-" + src.ID
		if !scanDone {
			tag += "-scan"
		}
		sum := runWorkers(sp, jobs, workers, sp.solver(), sp.timeoutMs(tier), work, tag)
		if sum.scanDone {
			scanHits, scanFns, scanDone = sum.scan, sum.scanFns, true
		}
		// keep only the write-set obligation (and whatever made a job inconclusive)
		for _, jr := range sum.results {
			var keep []sym.ObResult
			for _, ob := range jr.Obligations {
				if ob.Label == "no-write-to-package-state" {
					keep = append(keep, ob)
				}
			}
			jr.Obligations = keep
			if len(jr.Reached) == 0 {
				jr.Reached = []string{"(write-set only)"}
			}
		}
		total.jobs += len(jobs)
		total.results = append(total.results, sum.results...)
		total.fatal = append(total.fatal, sum.fatal...)
		for k := range sum.functions {
			total.functions[k] = true
		}
		for k := range sum.models {
			total.models[k] = true
		}
		total.solver.Queries += sum.solver.Queries
		total.solver.SolverSec += sum.solver.SolverSec
		if sum.initSec > total.initSec {
			total.initSec = sum.initSec
		}
	}
	rep.absorb(total, "per source property")
	if !scanDone {
		rep.incon = append(rep.incon, "the syntactic scan for stores into package-level state did not run")
	}
	for _, h := range scanHits {
		v := &violation{Job: sym.Job{ID: "c18/syntactic-scan"}, Label: "no-store-into-package-state", Note: h, NoReplay: true, Reproduced: true}
		dir := filepath.Join(verifDir, "replays", pd.ID)
		os.MkdirAll(dir, 0o755)
		v.ReplayPath = filepath.Join(dir, fmt.Sprintf("scan-%d.json", len(rep.viols)))
		b, _ := json.MarshalIndent(map[string]interface{}{"property": pd.ID, "label": v.Label, "note": h}, "", " ")
		os.WriteFile(v.ReplayPath, b, 0o644)
		rep.viols = append(rep.viols, v)
	}
	rep.assumptions[fmt.Sprintf("syntactic scan: %d repository functions outside package initialisers, %d stores through addresses derived from package-level variables", scanFns, len(scanHits))] = true
	rep.replayAll(work)
	rep.wall = time.Since(t0).Seconds()
	return rep.finish()
}
