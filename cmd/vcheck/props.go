package main

import (
	"encoding/json"
	"fmt"
	"os"
	"path/filepath"

	"verif/internal/asmgen"
	"verif/internal/sym"
	"verif/spec/w65816"
)

// opName renders an opcode as "op61-adc-(d,x)" for job ids.
func opName(op int) string {
	e := w65816.Table[op]
	return fmt.Sprintf("op%02x-%s-%s", op, w65816.MnNames[e.Mn], w65816.ModeNames[e.Mode])
}

// PropDef describes how one property is decided.
type PropDef struct {
	ID                                    string
	Title                                 string
	Level                                 string
	Patterns                              []string // packages loaded into the engine
	Jobs                                  func(tier string) []sym.Job
	Bounds                                []string
	Outside                               []string
	Assumptions                           []string
	Explanation                           string
	Exhaustive                            bool
	PermuteMaps                           bool
	Unwind                                int
	SetupPkg                              string
	Setup                                 string
	SingleSolver                          bool
	Solver                                string          // primary solver back end (default z3)
	PreCheck                              func() []string // coverage gaps that make the run inconclusive
	Fallbacks                             []string        // solver back ends tried when z3 answers unknown
	TimeoutQuickMs, TimeoutThoroughMs     int
	ConformanceQuick, ConformanceThorough int
	Overlay                               func() (map[string][]byte, error) // engine overlay (in-package harnesses)
	NativeOverlay                         func(work string) string          // go build -overlay file for the replayer
}

func (p *PropDef) timeoutMs(tier string) int {
	if tier == "thorough" && p.TimeoutThoroughMs > 0 {
		return p.TimeoutThoroughMs
	}
	if p.TimeoutQuickMs > 0 {
		return p.TimeoutQuickMs
	}
	return 60000
}

func (p *PropDef) solver() string {
	if p.Solver != "" {
		return p.Solver
	}
	return "z3"
}

func (p *PropDef) overlay() (map[string][]byte, error) {
	if p.Overlay == nil {
		return nil, nil
	}
	return p.Overlay()
}

func (p *PropDef) nativeOverlayFile(work string) string {
	if p.NativeOverlay == nil {
		return ""
	}
	return p.NativeOverlay(work)
}

// ---- generated asm harnesses (shared by C03, C07, C19)

var asmMethodsCache []asmgen.Method

func asmMethods() []asmgen.Method {
	if asmMethodsCache == nil {
		ms, err := asmgen.Load(verifDir)
		if err != nil {
			fmt.Fprintln(os.Stderr, "asmgen:", err)
			return nil
		}
		asmMethodsCache = ms
	}
	return asmMethodsCache
}

const (
	asmGenPath  = verifDir + "/harness/asmgen/gen.go"
	asmGen7Path = verifDir + "/harness/asmgen7/gen.go"
	asmRegPath  = verifDir + "/harness/all/zz_asmgen.go"
)

func asmOverlay() (map[string][]byte, error) {
	ms := asmMethods()
	if ms == nil {
		return nil, fmt.Errorf("cannot enumerate asm.Emitter methods")
	}
	gen, gen7, reg, err := asmgen.Generate(ms)
	if err != nil {
		return nil, err
	}
	return map[string][]byte{asmGenPath: []byte(gen), asmGen7Path: []byte(gen7), asmRegPath: []byte(reg)}, nil
}

func asmNativeOverlay(work string) string {
	ov, err := asmOverlay()
	if err != nil {
		return ""
	}
	repl := map[string]string{}
	i := 0
	for path, content := range ov {
		f := filepath.Join(work, fmt.Sprintf("overlay-%d.go", i))
		i++
		os.WriteFile(f, content, 0o644)
		repl[path] = f
	}
	b, _ := json.Marshal(map[string]interface{}{"Replace": repl})
	of := filepath.Join(work, "overlay.json")
	os.WriteFile(of, b, 0o644)
	return of
}

func asmUnclassified() []string {
	var out []string
	for _, m := range asmMethods() {
		if m.Kind == "unclassified" {
			out = append(out, "exported method "+m.Name+" is not covered (unclassified): "+m.Why)
		}
	}
	return out
}

var props []*PropDef

func allProps() []*PropDef { return props }

func propByID(id string) *PropDef {
	for _, p := range props {
		if p.ID == id {
			return p
		}
	}
	return nil
}

func job(pkg, fn string, id string, args ...int64) sym.Job {
	return sym.Job{ID: id, Pkg: "verif/harness/" + pkg, Func: fn, Args: args}
}

var cpuNames = []string{"main", "alt"}

var mapperNames = []string{"lorom", "hirom", "exhirom", "sa1rom"}

func init() {
	props = append(props, &PropDef{
		ID: "C01", Title: "Both 65C816 interpreters execute native-mode code per the WDC model", Level: "model_checking",
		Solver: "z3-new", Fallbacks: []string{"cvc5"}, TimeoutQuickMs: 20000,
		Patterns: []string{"verif/harness/c01"},
		Jobs: func(tier string) []sym.Job {
			var js []sym.Job
			for cpu := 0; cpu < 2; cpu++ {
				for op := 0; op < 256; op++ {
					for mx := 0; mx < 4; mx++ {
						m, x := mx>>1, mx&1
						js = append(js, job("c01", "Step", fmt.Sprintf("c01/%s/%s/m%dx%d", cpuNames[cpu], opName(op), m, x), int64(cpu), int64(op), int64(m), int64(x)))
					}
				}
			}
			return js
		},
		Bounds:           []string{"one instruction (Step is loop-free; MVN/MVP move one byte per Step) from an arbitrary native-mode state", "all 256 opcodes x 4 (m,x) settings x 2 interpreters enumerated as separate jobs; every register, flag, hidden register copy and all 16 MiB of memory symbolic", "instruction sequences: by induction, the post-state again satisfies the only invariant assumed of the pre-state (flag bytes in {0,1})"},
		Outside:          []string{"emulation mode (E=1 before the step)", "pending interrupts", "decimal ADC/SBC with invalid BCD digits; the V flag after decimal ADC/SBC", "WAI/STP wake-up", "cycle counts (C02/C12)"},
		Explanation:      "real Step of either interpreter vs. spec/w65816 reference on the abstraction of the same symbolic pre-state and memory; one labelled obligation per architectural component",
		ConformanceQuick: 64, ConformanceThorough: 2048,
	})
	modeNames := []string{"m0x0", "m0x1", "m1x0", "m1x1", "emu"}
	props = append(props, &PropDef{
		ID: "C02", Title: "The two CPU interpreters are observationally equivalent, cycle for cycle", Level: "model_checking",
		Solver: "z3-new", Fallbacks: []string{"cvc5"}, TimeoutQuickMs: 20000,
		Patterns: []string{"verif/harness/c02"},
		Jobs: func(tier string) []sym.Job {
			var js []sym.Job
			for op := 0; op < 256; op++ {
				for mode := 0; mode < 5; mode++ {
					js = append(js, job("c02", "Lockstep", fmt.Sprintf("c02/%s/%s", opName(op), modeNames[mode]), int64(op), int64(mode)))
				}
			}
			return js
		},
		Bounds:           []string{"one Step of each interpreter from one common arbitrary state: 256 opcodes x {4 native width settings, emulation mode}; all registers, hidden copies, D flag, stop latch, cycle counters, interrupt latch (none/NMI/IRQ) and 16 MiB memory symbolic", "any number of steps: by induction (equal post-states are a common pre-state again)"},
		Outside:          []string{"emulation mode with m=0 or x=0 (unreachable: XCE forces both)", "interrupt entry with the handler opcode inside the pushed stack frame (see assumptions)", "OnPC/OnWDM callbacks (C12)"},
		Explanation:      "both real Step functions run on the same symbolic state and memory; every exported register/flag/counter, the return values, failure status and memory (extensional) are compared",
		ConformanceQuick: 64, ConformanceThorough: 2048,
	})
	props = append(props, &PropDef{
		ID: "C08", Title: "The CPU stays inside the 24-bit address space and never crashes on mapped memory", Level: "model_checking",
		Solver: "z3-new", Fallbacks: []string{"cvc5"}, TimeoutQuickMs: 20000,
		Patterns: []string{"verif/harness/c08"},
		Jobs: func(tier string) []sym.Job {
			var js []sym.Job
			for cpu := 0; cpu < 2; cpu++ {
				for op := 0; op < 256; op++ {
					for mode := 0; mode < 5; mode++ {
						js = append(js, job("c08", "Step", fmt.Sprintf("c08/%s/%s/%s", cpuNames[cpu], opName(op), modeNames[mode]), int64(cpu), int64(op), int64(mode)))
					}
				}
			}
			return js
		},
		Bounds:           []string{"one Step from an arbitrary state: 2 interpreters x 256 opcodes x 5 mode settings; registers and memory symbolic", "the obligation is the engine's own set of Go runtime checks (index, slice, nil, divide, type assertion, explicit panic, log.Fatalf) on every feasible path"},
		Outside:          []string{"where a wrapped access lands (bank $00) is compared with the reference model in C01", "partially mapped buses (an unmapped address is meant to fail loudly, C13)"},
		Assumptions:      []string{"backends hold exactly 2^24 bytes (RAM over a 16 MiB slice / closures indexing a 16 MiB slice): an address >= 2^24 reaching the bus or a backend is a Go index-out-of-range failure, so 'no failure' implies every access is below 2^24"},
		Explanation:      "every implicit Go check inside Step is a solver-decided fork; the job passes only if no panic outcome is feasible",
		ConformanceQuick: 64, ConformanceThorough: 1024,
	})
	props = append(props, &PropDef{
		ID: "C12", Title: "Step accounts cycles faithfully and RunUntil always stops within its budget", Level: "model_checking",
		Solver: "z3-new", Fallbacks: []string{"cvc5"}, TimeoutQuickMs: 20000,
		Patterns: []string{"verif/harness/c12"},
		Jobs: func(tier string) []sym.Job {
			var js []sym.Job
			for cpu := 0; cpu < 2; cpu++ {
				for op := 0; op < 256; op++ {
					for mode := 0; mode < 5; mode++ {
						js = append(js, job("c12", "StepLemma", fmt.Sprintf("c12/step-lemma/%s/%s/%s", cpuNames[cpu], opName(op), modeNames[mode]), int64(cpu), int64(op), int64(mode)))
					}
				}
				js = append(js, job("c12", "ResetClearsStop", fmt.Sprintf("c12/reset/%s", cpuNames[cpu]), int64(cpu)))
			}
			for cpu := 0; cpu < 2; cpu++ {
				for op := 0; op < 256; op++ {
					for mode := 0; mode < 5; mode++ {
						if mode != 3 && mode != 0 && op != 0x42 && tier != "thorough" {
							continue // quick: callbacks under two width settings (all five for WDM)
						}
						js = append(js, job("c12", "Callbacks", fmt.Sprintf("c12/callbacks/%s/%s/%s", cpuNames[cpu], opName(op), modeNames[mode]), int64(cpu), int64(op), int64(mode)))
					}
				}
			}
			js = append(js, c12RunUntilJobs(tier)...)
			return js
		},
		Bounds:           []string{"Step lemma: one Step, 2 interpreters x 256 opcodes x 5 mode settings, all state symbolic (direct-page alignment, page crossing, branch outcome, pending-interrupt latch included)", "callbacks: one Step with one registered program-counter callback at a symbolic address", "RunUntil: see the run-until jobs' own bounds (programs of at most K instructions from a fixed opcode alphabet, symbolic budget)"},
		Outside:          []string{"runtime failures inside Step (C08)", "RunUntil for programs longer than the unrolling bound: follows from the Step lemma (cycles >= 1 makes the consumed-cycles counter strictly increasing) - argued, not solver-checked"},
		Explanation:      "Step lemma and callback obligations are per-opcode solver queries over an arbitrary state; RunUntil is the real loop run symbolically over short programs",
		ConformanceQuick: 64, ConformanceThorough: 1024,
	})
	props = append(props, &PropDef{
		ID: "C03", Title: "Every Emitter instruction method emits the canonical 65816 machine encoding", Level: "model_checking",
		Patterns: []string{"verif/harness/asmgen"}, Overlay: asmOverlay, NativeOverlay: asmNativeOverlay, PreCheck: asmUnclassified,
		Jobs: func(tier string) []sym.Job {
			var js []sym.Job
			for _, m := range asmMethods() {
				if m.Kind == "instr" || m.Kind == "label" {
					js = append(js, sym.Job{ID: "c03/" + m.Name, Pkg: "verif/harness/asmgen", Func: "C03_" + m.Name})
				}
			}
			return js
		},
		Bounds:           []string{"one call of each instruction-emitting method (enumerated from go/types this run) with every operand value symbolic (2^8/2^16/2^24), all 256 tracked-flag values, base unset or any bank-contained 24-bit base, listing on/off, 0-2 byte prefix (structural choices enumerated)", "target buffer of 16 symbolic bytes"},
		Outside:          []string{"operand bytes of label-reference forms (decided after Finalize, C06)", "methods the naming convention cannot classify are reported as inconclusive, not passed"},
		Explanation:      "expected opcode = spec/w65816 opcode matrix entry for the (mnemonic, addressing mode) the method NAME denotes; expected operand = little-endian bytes of the symbolic arguments; decode direction: the matrix' length for the emitted opcode under the tracked widths equals the emitted length",
		ConformanceQuick: 48, ConformanceThorough: 512,
	})
	props = append(props, &PropDef{
		ID: "C04", Title: "PakAddressToBus is a right inverse of BusAddressToPak", Level: "model_checking",
		Patterns: []string{"verif/harness/c04"},
		Jobs: func(tier string) []sym.Job {
			var js []sym.Job
			for m := 0; m < 4; m++ {
				js = append(js, job("c04", "BusRoundTrip", fmt.Sprintf("c04/bus-roundtrip/%s", mapperNames[m]), int64(m)))
				js = append(js, job("c04", "PakRoundTrip", fmt.Sprintf("c04/pak-roundtrip/%s", mapperNames[m]), int64(m)))
			}
			return js
		},
		Bounds:           []string{"bus and pak addresses: all 2^24 values each (one symbolic 32-bit variable assumed < 2^24), 4 mappers", "no loops in the encoded functions; no unwinding bound needed"},
		Outside:          []string{"addresses >= 2^24 (not addresses)"},
		Exhaustive:       true,
		Explanation:      "each mapper function pair is executed symbolically from SSA for an arbitrary 24-bit address; every assertion is one bit-vector query over the whole domain",
		ConformanceQuick: 32, ConformanceThorough: 512,
	})
	props = append(props, &PropDef{
		ID: "C05", Title: "Each mapper's bus decoding is a well-formed image of its memory map", Level: "model_checking",
		Patterns: []string{"verif/harness/c05"},
		Jobs: func(tier string) []sym.Job {
			var js []sym.Job
			for m := 0; m < 4; m++ {
				for _, f := range []string{"BusWellFormed", "PakRejection", "Console", "BusPages", "PakPages"} {
					js = append(js, job("c05", f, fmt.Sprintf("c05/%s/%s", f, mapperNames[m]), int64(m)))
				}
			}
			return js
		},
		Bounds:           []string{"bus and pak addresses: all 2^24 values each, 4 mappers", "loop-free implementation code; the oracle's table scan has a concrete trip count"},
		Outside:          []string{"addresses >= 2^24"},
		Exhaustive:       true,
		Explanation:      "implementation arithmetic vs. spec/cartmap (declarative transcription of the library's documented region tables, DESIGN Appendix B) for an arbitrary 24-bit address",
		ConformanceQuick: 40, ConformanceThorough: 600,
	})
	props = append(props, &PropDef{
		ID: "C17", Title: "15-bit colour packing is lossless and MulDiv scales with saturation", Level: "model_checking",
		Patterns: []string{"verif/harness/c17"},
		Jobs: func(tier string) []sym.Job {
			js := []sym.Job{
				job("c17", "UnpackPack", "c17/unpack-pack"),
				job("c17", "PackUnpack", "c17/pack-unpack"),
				job("c17", "MulDiv", "c17/muldiv"),
				job("c17", "MulDivIdentity", "c17/muldiv-identity"),
				job("c17", "MulDivMonotoneMul", "c17/muldiv-monotone-mul"),
				job("c17", "MulDivMonotoneDiv", "c17/muldiv-monotone-div"),
				job("c17", "Luminosity", "c17/luminosity"),
			}
			if tier == "thorough" {
				for ch := 0; ch < 32; ch++ {
					js = append(js, job("c17", "MulDivMonotone", fmt.Sprintf("c17/muldiv-monotone-ratio/ch%02d", ch), int64(ch)))
				}
			}
			return js
		},
		Bounds:         []string{"colour: all 2^16 values; multiplicand: all 256; divisor: all 255 non-zero; channel triples: all 2^24", "loop-free code; no unwinding bound"},
		Outside:        []string{"divisor 0 (documented precondition; Go panics)"},
		Exhaustive:     true,
		Explanation:    "color15 functions executed symbolically; reference = per-channel min(floor(ch*mul/div),31) computed in 32 bits",
		TimeoutQuickMs: 8000, TimeoutThoroughMs: 60000, Fallbacks: []string{"cvc5-int", "cvc5"},
		ConformanceQuick: 32, ConformanceThorough: 512,
	})
}

func c12RunUntilJobs(tier string) []sym.Job {
	k, budget := 2, 7
	if tier == "thorough" {
		k, budget = 3, 9
	}
	n := 1
	for i := 0; i < k; i++ {
		n *= 8
	}
	var js []sym.Job
	for p := 0; p < n; p++ {
		js = append(js, job("c12", "RunUntil", fmt.Sprintf("c12/run-until/k%d/prog%04o/budget<=%d", k, p, budget), int64(p), int64(k), int64(budget)))
	}
	return js
}
