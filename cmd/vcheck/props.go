package main

import (
	"encoding/json"
	"fmt"
	"os"
	"os/exec"
	"path/filepath"

	"verif/internal/asmgen"
	"verif/internal/inpkg"
	"verif/internal/sym"
	"verif/spec/w65816"
)

// opName renders an opcode as "op61-adc-(d,x)" for job ids.
func opName(op int) string {
	e := w65816.Table[op]
	return fmt.Sprintf("op%02x-%s-%s", op, w65816.MnNames[e.Mn], w65816.ModeNames[e.Mode])
}

// PropDef describes how one property is decided.
type PropDef struct {
	Meta                                  func(tier string) []MetaSource // non-nil: decided through other properties\' jobs (write-set monitor)
	ID                                    string
	Title                                 string
	Level                                 string
	Patterns                              []string // packages loaded into the engine
	Jobs                                  func(tier string) []sym.Job
	Bounds                                []string
	Outside                               []string
	Assumptions                           []string
	Explanation                           string
	Exhaustive                            bool
	PermuteMaps                           bool
	Unwind                                int
	SetupPkg                              string
	Setup                                 string
	SingleSolver                          bool
	Solver                                string          // primary solver back end (default z3)
	PreCheck                              func() []string // coverage gaps that make the run inconclusive
	Fallbacks                             []string        // solver back ends tried when z3 answers unknown
	TimeoutQuickMs, TimeoutThoroughMs     int
	ConformanceQuick, ConformanceThorough int
	Overlay                               func() (map[string][]byte, error) // engine overlay (in-package harnesses)
	OptionalInPkg                         string                            // jobs whose Pkg is this one need the in-package harness ...
	InPkgProbe                            func(work string) string          // ... which this probe compiles ("" = fine)
	NativeOverlay                         func(work string) string          // go build -overlay file for the replayer
}

func (p *PropDef) timeoutMs(tier string) int {
	if tier == "thorough" && p.TimeoutThoroughMs > 0 {
		return p.TimeoutThoroughMs
	}
	if p.TimeoutQuickMs > 0 {
		return p.TimeoutQuickMs
	}
	return 60000
}

func (p *PropDef) solver() string {
	if p.Solver != "" {
		return p.Solver
	}
	return "z3-new"
}

func (p *PropDef) fallbacks() []string {
	if p.Fallbacks != nil {
		return p.Fallbacks
	}
	return []string{"cvc5"}
}

func (p *PropDef) overlay() (map[string][]byte, error) {
	if p.Overlay == nil {
		return nil, nil
	}
	return p.Overlay()
}

func (p *PropDef) nativeOverlayFile(work string) string {
	if p.NativeOverlay == nil {
		return ""
	}
	return p.NativeOverlay(work)
}

// ---- generated asm harnesses (shared by C03, C07, C19)

var asmMethodsCache []asmgen.Method

func asmMethods() []asmgen.Method {
	if asmMethodsCache == nil {
		ms, err := asmgen.Load(verifDir)
		if err != nil {
			fmt.Fprintln(os.Stderr, "asmgen:", err)
			return nil
		}
		asmMethodsCache = ms
	}
	return asmMethodsCache
}

var (
	asmGenPath  = verifDir + "/harness/asmgen/gen.go"
	asmGen7Path = verifDir + "/harness/asmgen7/gen.go"
	asmRegPath  = verifDir + "/harness/all/zz_asmgen.go"
)

func asmOverlay() (map[string][]byte, error) {
	ms := asmMethods()
	if ms == nil {
		return nil, fmt.Errorf("cannot enumerate asm.Emitter methods")
	}
	gen, gen7, reg, err := asmgen.Generate(ms)
	if err != nil {
		return nil, err
	}
	return map[string][]byte{asmGenPath: []byte(gen), asmGen7Path: []byte(gen7), asmRegPath: []byte(reg)}, nil
}

func asmNativeOverlay(work string) string {
	ov, err := asmOverlay()
	if err != nil {
		return ""
	}
	repl := map[string]string{}
	i := 0
	for path, content := range ov {
		f := filepath.Join(work, fmt.Sprintf("overlay-%d.go", i))
		i++
		os.WriteFile(f, content, 0o644)
		repl[path] = f
	}
	b, _ := json.Marshal(map[string]interface{}{"Replace": repl})
	of := filepath.Join(work, "overlay.json")
	os.WriteFile(of, b, 0o644)
	return of
}

var (
	c06SymPath = repoDir + "/asm/zz_verif_c06.go"
	c06RegPath = verifDir + "/harness/all/zz_c06sym.go"
)

// The in-package harness reads unexported fields of asm.Emitter. If a tree has renamed or
// restructured them the harness no longer compiles; that is not a property violation. The driver
// probes once (c06Probe) and, on failure, tells itself and its workers through the environment to do
// without it: the public-API templates remain, the evidence says so.
const noInPkgEnv = "VERIF_C06_NO_INPKG"

func c06Overlay() (map[string][]byte, error) {
	if os.Getenv(noInPkgEnv) != "" {
		return nil, nil
	}
	return map[string][]byte{c06SymPath: []byte(inpkg.C06Sym), c06RegPath: []byte(inpkg.C06Reg)}, nil
}

// c06Probe compiles package asm with the harness file laid over it; returns the compiler's message on failure.
func c06Probe(work string) string {
	ov := writeNativeOverlay(work, map[string][]byte{c06SymPath: []byte(inpkg.C06Sym)})
	cmd := exec.Command("go", "build", "-overlay", ov, "github.com/alttpo/snes/asm")
	cmd.Dir = verifDir
	cmd.Env = goEnv()
	if out, err := cmd.CombinedOutput(); err != nil {
		return tail(string(out), 600)
	}
	return ""
}

func writeNativeOverlay(work string, ov map[string][]byte) string {
	repl := map[string]string{}
	i := 0
	for path, content := range ov {
		f := filepath.Join(work, fmt.Sprintf("overlay-%d.go", i))
		i++
		os.WriteFile(f, content, 0o644)
		repl[path] = f
	}
	b, _ := json.Marshal(map[string]interface{}{"Replace": repl})
	of := filepath.Join(work, "overlay.json")
	os.WriteFile(of, b, 0o644)
	return of
}

func c06NativeOverlay(work string) string {
	ov, _ := c06Overlay()
	if ov == nil {
		return ""
	}
	return writeNativeOverlay(work, ov)
}

func asmUnclassified() []string {
	var out []string
	for _, m := range asmMethods() {
		if m.Kind == "unclassified" {
			out = append(out, "exported method "+m.Name+" is not covered (unclassified): "+m.Why)
		}
	}
	return out
}

// MetaSource: take every Stride-th job of property ID.
type MetaSource struct {
	ID     string
	Stride int
}

var props []*PropDef

func allProps() []*PropDef { return props }

func propByID(id string) *PropDef {
	for _, p := range props {
		if p.ID == id {
			return p
		}
	}
	return nil
}

func job(pkg, fn string, id string, args ...int64) sym.Job {
	return sym.Job{ID: id, Pkg: "verif/harness/" + pkg, Func: fn, Args: args}
}

// twoStepPairs lists the (first opcode, second opcode, width settings) of the two-instruction jobs
// of C01/C02; the third element is a bit set over mx = m<<1|x. Quick: the block moves in every
// combination (a repeating MVN/MVP is re-executed once per byte, so the second step is the second
// iteration), block moves next to ordinary instructions and width switches, and every opcode twice
// in a row at one width setting (op%4). Thorough: every opcode twice and after a block move, all
// widths. STP and WAI are never first (what follows them is wake-up, outside C01).
func twoStepPairs(tier string) [][3]int {
	const mvp, mvn, all = 0x44, 0x54, 0xF
	prs := [][3]int{{mvn, mvn, all}, {mvp, mvp, all}, {mvn, mvp, all}, {mvp, mvn, all}, {mvn, 0xAD, all}, {mvp, 0x8D, all}, {0xC2, mvn, all}, {0xE2, mvp, all}, {0xAB, mvn, all}, {0xEB, 0xEB, all}, {0xC2, 0xA2, all}, {0xE2, 0xC2, all}, {0x28, 0xBB, all},
		// push/pull and call/return brackets: what the second restores is what the first saved
		{0x08, 0x28, all}, {0x00, 0x40, all}, {0x02, 0x40, all}, {0x00, 0x28, all}, {0x02, 0x28, all}, {0xF4, 0x28, all}, {0x48, 0x68, all}, {0xDA, 0xFA, all}, {0x5A, 0x7A, all},
		{0x0B, 0x2B, all}, {0x8B, 0xAB, all}, {0x4B, 0xAB, all}, {0x20, 0x60, all}, {0x22, 0x6B, all}, {0xFC, 0x60, all}, {0x48, 0x28, all}, {0x08, 0x68, all}, {0xC2, 0xE2, all}, {0xFB, 0xFB, all}, {0x1B, 0x3B, all}, {0x5B, 0x7B, all}}
	for op := 0; op < 256; op++ {
		if op == 0xDB || op == 0xCB {
			continue
		}
		mask := 1 << (op % 4)
		if tier == "thorough" {
			mask = all
		}
		if op != mvn && op != mvp && op != 0xEB && op != 0xFB {
			prs = append(prs, [3]int{op, op, mask})
		}
		if tier == "thorough" && op != mvn && op != mvp && op != 0xAD {
			prs = append(prs, [3]int{mvn, op, all})
		}
	}
	return prs
}

// threeStepTriples: save, disturb, restore - and use, overwrite behind the interpreter's back, use again.
func threeStepTriples() [][3]int {
	var ts [][3]int
	// PHP, an instruction that changes flags without going through the status-byte unpacking, PLP
	for _, mid := range []int{0x18, 0x38, 0x78, 0x58, 0xF8, 0xD8, 0xB8, 0xA9, 0xC9, 0xE8, 0xC2, 0xE2} {
		ts = append(ts, [3]int{0x08, mid, 0x28})
	}
	// an indirect access, a store that does not use the ordinary store path (push, block move), the access again
	for _, acc := range []int{0xB2, 0xB1, 0xA1, 0xA7, 0xB7, 0x92} {
		for _, mid := range []int{0xF4, 0x48, 0x08, 0x8D} {
			ts = append(ts, [3]int{acc, mid, acc})
		}
	}
	ts = append(ts, [3]int{0xB2, 0x54, 0xB2}, [3]int{0x54, 0x54, 0x54}, [3]int{0x44, 0x44, 0x44}, [3]int{0xE2, 0xEB, 0xC2}, [3]int{0xC2, 0xAA, 0xE2}, [3]int{0x8D, 0xEE, 0xAD}, [3]int{0x20, 0xE8, 0x60}, [3]int{0x48, 0xEB, 0x68})
	return ts
}

var cpuNames = []string{"main", "alt"}

var mapperNames = []string{"lorom", "hirom", "exhirom", "sa1rom"}

func init() {
	props = append(props, &PropDef{
		ID: "C01", Title: "Both 65C816 interpreters execute native-mode code per the WDC model", Level: "model_checking",
		Solver: "z3-new", Fallbacks: []string{"cvc5"}, TimeoutQuickMs: 20000,
		Patterns: []string{"verif/harness/c01"},
		Jobs: func(tier string) []sym.Job {
			var js []sym.Job
			for cpu := 0; cpu < 2; cpu++ {
				for op := 0; op < 256; op++ {
					for mx := 0; mx < 4; mx++ {
						m, x := mx>>1, mx&1
						js = append(js, job("c01", "Step", fmt.Sprintf("c01/%s/%s/m%dx%d", cpuNames[cpu], opName(op), m, x), int64(cpu), int64(op), int64(m), int64(x)))
					}
				}
				for _, tr := range threeStepTriples() {
					for mx := 0; mx < 4; mx++ {
						m, x := mx>>1, mx&1
						js = append(js, job("c01", "Step3", fmt.Sprintf("c01/three-steps/%s/%s-then-%s-then-%s/m%dx%d", cpuNames[cpu], opName(tr[0]), opName(tr[1]), opName(tr[2]), m, x), int64(cpu), int64(tr[0]), int64(tr[1]), int64(tr[2]), int64(m), int64(x)))
					}
				}
				for _, pr := range twoStepPairs(tier) {
					for mx := 0; mx < 4; mx++ {
						if pr[2]>>mx&1 == 0 {
							continue
						}
						m, x := mx>>1, mx&1
						js = append(js, job("c01", "Step2", fmt.Sprintf("c01/two-steps/%s/%s-then-%s/m%dx%d", cpuNames[cpu], opName(pr[0]), opName(pr[1]), m, x), int64(cpu), int64(pr[0]), int64(pr[1]), int64(m), int64(x)))
					}
				}
			}
			return js
		},
		Bounds:           []string{"one instruction (Step is loop-free; MVN/MVP move one byte per Step) from an arbitrary native-mode state", "all 256 opcodes x 4 (m,x) settings x 2 interpreters enumerated as separate jobs; every register, flag, hidden register copy and all 16 MiB of memory symbolic", "instruction sequences: by induction, the post-state again satisfies the only invariant assumed of the pre-state (flag bytes in {0,1})", "two consecutive instructions (Step2) for state kept between steps outside the listed CPU fields: MVN/MVP in all four orders, block moves next to loads/stores/width switches, 21 save/restore brackets (PHP-PLP, BRK/COP-RTI/PLP, JSR-RTS, JSL-RTL, ...) at all widths, and every opcode twice in a row (quick: at one width setting, op%4; thorough: all four, plus every opcode after MVN)", "three consecutive instructions (Step3): 44 triples at all widths - PHP / a flag-changing instruction / PLP, an indirect access / a push, block move or store / the same access again, MVN and MVP three times, five width-switch and call/return triples"},
		Outside:          []string{"emulation mode (E=1 before the step)", "pending interrupts", "decimal ADC/SBC with invalid BCD digits; the V flag after decimal ADC/SBC", "WAI/STP wake-up", "cycle counts (C02/C12)", "sequences of four or more instructions other than by the induction above; opcode pairs and triples not listed under bounds", "in the two-instruction jobs: a first instruction that disagrees with the model (assumed to agree; reported by the one-step jobs), STP/WAI as the first instruction"},
		Assumptions:      []string{"two- and three-instruction jobs: the harness stores each later opcode under the program counter the instruction before left, in the memory of model and implementation alike (for a repeating block move this is the byte already there)"},
		Explanation:      "real Step of either interpreter vs. spec/w65816 reference on the abstraction of the same symbolic pre-state and memory; one labelled obligation per architectural component",
		ConformanceQuick: 64, ConformanceThorough: 2048,
	})
	modeNames := []string{"m0x0", "m0x1", "m1x0", "m1x1", "emu"}
	props = append(props, &PropDef{
		ID: "C02", Title: "The two CPU interpreters are observationally equivalent, cycle for cycle", Level: "model_checking",
		Solver: "z3-new", Fallbacks: []string{"cvc5"}, TimeoutQuickMs: 20000,
		Patterns: []string{"verif/harness/c02"},
		Jobs: func(tier string) []sym.Job {
			var js []sym.Job
			for op := 0; op < 256; op++ {
				for mode := 0; mode < 5; mode++ {
					js = append(js, job("c02", "Lockstep", fmt.Sprintf("c02/%s/%s", opName(op), modeNames[mode]), int64(op), int64(mode)))
				}
				// a CPU made with InitFrom from a live one (width setting varies with the opcode; thorough: all four)
				for mode := 0; mode < 4; mode++ {
					if tier == "thorough" || mode == op%4 {
						js = append(js, job("c02", "Copy", fmt.Sprintf("c02/copied-cpu/%s/%s", opName(op), modeNames[mode]), int64(op), int64(mode)))
					}
				}
			}
			for _, tr := range threeStepTriples() {
				for mode := 0; mode < 4; mode++ {
					js = append(js, job("c02", "Lockstep3", fmt.Sprintf("c02/three-steps/%s-then-%s-then-%s/%s", opName(tr[0]), opName(tr[1]), opName(tr[2]), modeNames[mode]), int64(tr[0]), int64(tr[1]), int64(tr[2]), int64(mode)))
				}
			}
			for _, pr := range twoStepPairs(tier) {
				for mode := 0; mode < 4; mode++ {
					if pr[2]>>mode&1 == 0 {
						continue
					}
					js = append(js, job("c02", "Lockstep2", fmt.Sprintf("c02/two-steps/%s-then-%s/%s", opName(pr[0]), opName(pr[1]), modeNames[mode]), int64(pr[0]), int64(pr[1]), int64(mode)))
				}
			}
			js = append(js, job("c02", "Trigger", "c02/api/trigger-irq"), job("c02", "Reset", "c02/api/reset"))
			js = append(js, job("c02", "Fresh", "c02/api/fresh-cpus/opc2-rep", 0xC2), job("c02", "Fresh", "c02/api/fresh-cpus/opad-lda-a", 0xAD))
			return js
		},
		Bounds:           []string{"one Step of each interpreter from one common arbitrary state: 256 opcodes x {4 native width settings, emulation mode}; all registers, hidden copies, D flag, stop latch, cycle counters, interrupt latch (none/NMI/IRQ) and 16 MiB memory symbolic", "any number of steps: by induction (equal post-states are a common pre-state again)", "the same step on a cpualt CPU made with InitFrom from the live one (native mode, no pending interrupt), which must also leave the original untouched", "two consecutive Steps of both (Lockstep2, native mode, no pending interrupt): the opcode pairs and triples of C01's multi-instruction jobs (Lockstep3 for three); everything compared after the last"},
		Outside:          []string{"emulation mode with m=0 or x=0 (unreachable: XCE forces both)", "interrupt entry with the handler opcode inside the pushed stack frame (see assumptions)", "OnPC/OnWDM callbacks (C12)"},
		Explanation:      "both real Step functions run on the same symbolic state and memory; every exported register/flag/counter, the return values, failure status and memory (extensional) are compared",
		ConformanceQuick: 64, ConformanceThorough: 2048,
	})
	props = append(props, &PropDef{
		ID: "C08", Title: "The CPU stays inside the 24-bit address space and never crashes on mapped memory", Level: "model_checking",
		Solver: "z3-new", Fallbacks: []string{"cvc5"}, TimeoutQuickMs: 20000,
		Patterns: []string{"verif/harness/c08"},
		Jobs: func(tier string) []sym.Job {
			var js []sym.Job
			for cpu := 0; cpu < 2; cpu++ {
				for op := 0; op < 256; op++ {
					for mode := 0; mode < 5; mode++ {
						js = append(js, job("c08", "Step", fmt.Sprintf("c08/%s/%s/%s", cpuNames[cpu], opName(op), modeNames[mode]), int64(cpu), int64(op), int64(mode)))
					}
				}
			}
			return js
		},
		Bounds:           []string{"one Step from an arbitrary state: 2 interpreters x 256 opcodes x 5 mode settings; registers and memory symbolic", "the obligation is the engine's own set of Go runtime checks (index, slice, nil, divide, type assertion, explicit panic, log.Fatalf) on every feasible path"},
		Outside:          []string{"where a wrapped access lands (bank $00) is compared with the reference model in C01", "partially mapped buses (an unmapped address is meant to fail loudly, C13)"},
		Assumptions:      []string{"backends hold exactly 2^24 bytes (RAM over a 16 MiB slice / closures indexing a 16 MiB slice): an address >= 2^24 reaching the bus or a backend is a Go index-out-of-range failure, so 'no failure' implies every access is below 2^24"},
		Explanation:      "every implicit Go check inside Step is a solver-decided fork; the job passes only if no panic outcome is feasible",
		ConformanceQuick: 64, ConformanceThorough: 1024,
	})
	props = append(props, &PropDef{
		ID: "C09", Title: "ROM header parse/write round-trips and fields sit at their documented offsets", Level: "model_checking",
		Patterns: []string{"verif/harness/c09"},
		Jobs: func(tier string) []sym.Job {
			sizes := []int{0x8000, 0x8001, 0x10000}
			if tier == "thorough" {
				sizes = append(sizes, 0x20000, 0x400000)
			}
			var js []sym.Job
			for _, sz := range sizes {
				js = append(js, job("c09", "RoundTrip", fmt.Sprintf("c09/round-trip/size%#x", sz), int64(sz)))
				js = append(js, job("c09", "TwoRounds", fmt.Sprintf("c09/two-rounds-on-one-object/size%#x", sz), int64(sz)))
				js = append(js, job("c09", "Direct", fmt.Sprintf("c09/header-read-directly-at-position/size%#x", sz), int64(sz)))
			}
			for _, sz := range []int{0, 1, 0x7FB0, 0x7FFF} {
				js = append(js, job("c09", "TooSmall", fmt.Sprintf("c09/too-small/size%#x", sz), int64(sz)))
			}
			return js
		},
		Bounds:           []string{"image sizes 0x8000, 0x8001, 0x10000 (thorough: + 0x20000, 0x400000); every byte of the image symbolic, so all 2^640 header contents and every detected version are covered by one run per size", "the field walker's loops have concrete trip counts (number of struct fields)", "one ROM object over time: read/write-back, the 80 header bytes replaced by other symbolic bytes, read/write-back again, and once more unchanged", "Header.ReadHeader called directly with a reader over the whole image positioned at the header"},
		Outside:          []string{"image sizes other than the listed ones (the header offset is a constant; argued)", "headers located elsewhere than $7FB0 (the library only reads LoROM position)"},
		Assumptions:      []string{"reflect (ValueOf/Elem/NumField/Field/CanInterface/CanAddr/Addr/Interface/Type) and encoding/binary.Read/Write are modelled by their documented contracts from go/types layouts; the walkers in header.go, version logic and bytes.Reader run for real"},
		Explanation:      "real NewROM/ReadHeader/WriteHeader on a fully symbolic image; field placement compared with the SNES header layout (DESIGN Appendix C) byte by byte",
		ConformanceQuick: 24, ConformanceThorough: 200,
	})
	props = append(props, &PropDef{
		ID: "C10", Title: "ROM bus readers/writers stay inside the addressed bank and obey io contracts", Level: "model_checking",
		Patterns: []string{"verif/harness/c10"},
		Jobs: func(tier string) []sym.Job {
			var js []sym.Job
			banks := []int{2}
			lens := []int{-1, 0, 1, 2, 3}
			if tier == "thorough" {
				banks = []int{2, 4}
				lens = []int{-1, 0, 1, 2, 3, 5}
			}
			// an image with banks above $7F (bus banks $80+ are ROM banks of their own in this API)
			for _, l := range [][3]int{{2, -1, -1}, {3, 2, -1}, {1, 0, 3}} {
				js = append(js, job("c10", "Reads", fmt.Sprintf("c10/reads/banks130/%d,%d,%d", l[0], l[1], l[2]), 130, int64(l[0]), int64(l[1]), int64(l[2])))
				js = append(js, job("c10", "Writes", fmt.Sprintf("c10/writes/banks130/%d,%d,%d", l[0], l[1], l[2]), 130, int64(l[0]), int64(l[1]), int64(l[2])))
			}
			for _, extra := range []int{0, 1, 2, 0x40} {
				js = append(js, job("c10", "Huge", fmt.Sprintf("c10/huge-write/banks2/64KiB+%d", extra), 2, int64(extra)))
			}
			for _, l := range [][2]int{{1, 1}, {2, 1}, {1, 3}, {3, 2}, {0, 2}} {
				js = append(js, job("c10", "Handles", fmt.Sprintf("c10/handles/banks2/%d,%d", l[0], l[1]), 2, int64(l[0]), int64(l[1])))
				if tier == "thorough" {
					js = append(js, job("c10", "Handles", fmt.Sprintf("c10/handles/banks4/%d,%d", l[0], l[1]), 4, int64(l[0]), int64(l[1])))
				}
			}
			for _, b := range banks {
				for _, n := range []int{0, 1, 4} {
					js = append(js, job("c10", "LowHalf", fmt.Sprintf("c10/low-half/banks%d/len%d", b, n), int64(b), int64(n)))
				}
				for _, l1 := range lens[1:] {
					for _, l2 := range lens {
						for _, l3 := range lens {
							if l2 < 0 && l3 >= 0 {
								continue
							}
							if tier != "thorough" && l3 >= 0 && (l1+l2+l3)%2 == 1 {
								continue
							}
							js = append(js, job("c10", "Reads", fmt.Sprintf("c10/reads/banks%d/%d,%d,%d", b, l1, l2, l3), int64(b), int64(l1), int64(l2), int64(l3)))
							js = append(js, job("c10", "Writes", fmt.Sprintf("c10/writes/banks%d/%d,%d,%d", b, l1, l2, l3), int64(b), int64(l1), int64(l2), int64(l3)))
						}
					}
				}
			}
			return js
		},
		Bounds:           []string{"image of 2 (thorough also 4) banks with symbolic contents; bus address fully symbolic (bank inside the image); sequences of up to 3 reads or writes of 0-3 (thorough 0-5) bytes with symbolic data", "so every distance to the bank end (at, one before, beyond) is covered by the symbolic address", "two readers, then two writers, at two independent symbolic addresses of one ROM used alternately (2 rounds of 0-3 bytes each)"},
		Outside:          []string{"banks outside the image (slicing fails loudly)", "longer operation sequences"},
		Explanation:      "the harness applies the contract (window = file offset .. end of the 32 KiB bank) to its own copy of the image and compares counts, errors, delivered bytes and the whole image",
		ConformanceQuick: 48, ConformanceThorough: 400,
	})
	props = append(props, &PropDef{
		ID: "C11", Title: "The emulated System's memory map is the LoROM map of the mapper package", Level: "model_checking",
		Patterns: []string{"verif/harness/c11"},
		Jobs: func(tier string) []sym.Job {
			var js []sym.Job
			for b := 0; b < 256; b++ {
				js = append(js, job("c11", "Address", fmt.Sprintf("c11/address/bank%02x", b), int64(b)))
				js = append(js, job("c11", "Long", fmt.Sprintf("c11/long-read/bank%02x", b), int64(b)))
			}
			return js
		},
		Bounds:           []string{"one read and one write at every 24-bit bus address (256 jobs, one per bank, the 16-bit offset symbolic), with fully symbolic contents of the ROM (16 MiB), WRAM and SRAM arrays", "the real CreateEmulator is executed by the engine (concrete loops); the 2^20-entry segment table is then split into its runs of identical backends and the address is case-split over them (feasibility by solver)", "the three-byte read EaRead24_wrap at every bank and symbolic offset compared with three single reads (device boundaries, bank wrap)"},
		Outside:          []string{"addresses the console backs with hardware registers or leaves unmapped, and addresses the mapper reports unmapped (the property speaks about addresses both sides consider memory)"},
		Exhaustive:       true,
		Explanation:      "which array (if any) a bus write reaches is observed extensionally (array != its symbolic original); class and cell index are compared with lorom.BusAddressToPak",
		ConformanceQuick: 32, ConformanceThorough: 512,
	})
	props = append(props, &PropDef{
		ID: "C12", Title: "Step accounts cycles faithfully and RunUntil always stops within its budget", Level: "model_checking",
		Solver: "z3-new", Fallbacks: []string{"cvc5"}, TimeoutQuickMs: 20000,
		Patterns: []string{"verif/harness/c12"},
		Jobs: func(tier string) []sym.Job {
			var js []sym.Job
			for cpu := 0; cpu < 2; cpu++ {
				for op := 0; op < 256; op++ {
					for mode := 0; mode < 5; mode++ {
						js = append(js, job("c12", "StepLemma", fmt.Sprintf("c12/step-lemma/%s/%s/%s", cpuNames[cpu], opName(op), modeNames[mode]), int64(cpu), int64(op), int64(mode), -1))
						// the same step delivering a pending NMI (2) or IRQ (3): quick tier for one width setting per opcode
						if tier == "thorough" || mode == op%5 {
							for intr := 2; intr <= 3; intr++ {
								js = append(js, job("c12", "StepLemma", fmt.Sprintf("c12/step-lemma/%s/%s/%s/pending-%s", cpuNames[cpu], opName(op), modeNames[mode], []string{"nmi", "irq"}[intr-2]), int64(cpu), int64(op), int64(mode), int64(intr)))
							}
						}
					}
				}
				js = append(js, job("c12", "ResetClearsStop", fmt.Sprintf("c12/reset/%s", cpuNames[cpu]), int64(cpu)))
			}
			for cpu := 0; cpu < 2; cpu++ {
				for op := 0; op < 256; op++ {
					for mode := 0; mode < 5; mode++ {
						if mode != 3 && mode != 0 && op != 0x42 && tier != "thorough" {
							continue // quick: callbacks under two width settings (all five for WDM)
						}
						js = append(js, job("c12", "Callbacks", fmt.Sprintf("c12/callbacks/%s/%s/%s", cpuNames[cpu], opName(op), modeNames[mode]), int64(cpu), int64(op), int64(mode)))
					}
				}
			}
			js = append(js, c12RunUntilJobs(tier)...)
			return js
		},
		Bounds:           []string{"Step lemma: one Step, 2 interpreters x 256 opcodes x 5 mode settings, all state symbolic (direct-page alignment, page crossing, branch outcome, pending-interrupt latch included)", "callbacks: one Step with one registered program-counter callback at a symbolic address", "RunUntil: see the run-until jobs' own bounds (programs of at most K instructions from a fixed opcode alphabet, symbolic budget)", "the Step lemma also with a pending NMI or IRQ being delivered (quick: one width setting per opcode; thorough: all)"},
		Outside:          []string{"runtime failures inside Step (C08)", "RunUntil for programs longer than the unrolling bound: follows from the Step lemma (cycles >= 1 makes the consumed-cycles counter strictly increasing) - argued, not solver-checked"},
		Explanation:      "Step lemma and callback obligations are per-opcode solver queries over an arbitrary state; RunUntil is the real loop run symbolically over short programs",
		ConformanceQuick: 64, ConformanceThorough: 1024,
	})
	props = append(props, &PropDef{
		ID: "C03", Title: "Every Emitter instruction method emits the canonical 65816 machine encoding", Level: "model_checking",
		Patterns: []string{"verif/harness/asmgen"}, Overlay: asmOverlay, NativeOverlay: asmNativeOverlay, PreCheck: asmUnclassified,
		Jobs: func(tier string) []sym.Job {
			var js []sym.Job
			for _, m := range asmMethods() {
				if m.Kind == "instr" || m.Kind == "label" {
					js = append(js, sym.Job{ID: "c03/" + m.Name, Pkg: "verif/harness/asmgen", Func: "C03_" + m.Name})
				}
			}
			return js
		},
		Bounds:           []string{"one call of each instruction-emitting method (enumerated from go/types this run) with every operand value symbolic (2^8/2^16/2^24), all 256 tracked-flag values, base unset or any bank-contained 24-bit base, listing on/off, 0-2 byte prefix (structural choices enumerated)", "target buffer of 16 symbolic bytes"},
		Outside:          []string{"operand bytes of label-reference forms (decided after Finalize, C06)", "methods the naming convention cannot classify are reported as inconclusive, not passed"},
		Explanation:      "expected opcode = spec/w65816 opcode matrix entry for the (mnemonic, addressing mode) the method NAME denotes; expected operand = little-endian bytes of the symbolic arguments; decode direction: the matrix' length for the emitted opcode under the tracked widths equals the emitted length",
		ConformanceQuick: 48, ConformanceThorough: 512,
	})
	props = append(props, &PropDef{
		ID: "C06", Title: "Finalize resolves every label reference to the right target or reports an error", Level: "model_checking",
		Patterns: []string{"verif/harness/c06", "github.com/alttpo/snes/asm"}, PermuteMaps: true, Overlay: c06Overlay, NativeOverlay: c06NativeOverlay, OptionalInPkg: "github.com/alttpo/snes/asm", InPkgProbe: c06Probe,
		Jobs:             c06Jobs,
		Bounds:           []string{"programs of at most 7 emitter calls from the alphabet {Label L0/L1, relative branch to L0/L1 (all 7 branch methods), JMP_abs L0/L1, NOP, data block of 1,2,3,123..127 symbolic bytes}: every template in c06Jobs (forward/backward/multiple/missing/duplicate references, distances -130..+130 around both limits)", "base unset or any bank-contained 24-bit base (symbolic); data contents symbolic; every iteration order of the two label maps (<=3 entries) explored", "at most 2 labels and 3 references per label", "after a failed Finalize: a second call fails again; after defining every missing label (at the end of the program) the verdict and the operands are again those of the books; after success a second Finalize succeeds and changes nothing"},
		Outside:          []string{"more than 2 labels / 3 references per label (the resolution loops repeat the same body - argued, not checked)", "the text of out-of-range error messages (contains symbolic addresses); only the failure itself is checked there"},
		Explanation:      "the harness keeps its own books of reference and label positions while driving the public API, then compares Finalize's verdict and every byte of the result with them",
		ConformanceQuick: 48, ConformanceThorough: 400,
	})
	props = append(props, &PropDef{
		ID: "C07", Title: "Emitter-accepted code is decoded by the CPU at the same instruction boundaries", Level: "model_checking",
		Solver: "z3-new", Fallbacks: []string{"cvc5"}, TimeoutQuickMs: 20000,
		Patterns: []string{"verif/harness/asmgen7"}, Overlay: asmOverlay, NativeOverlay: asmNativeOverlay, PreCheck: asmUnclassified,
		Jobs: func(tier string) []sym.Job {
			var js []sym.Job
			for _, m := range asmMethods() {
				if m.Kind != "instr" || m.Transfer {
					continue
				}
				for cpu := 0; cpu < 2; cpu++ {
					js = append(js, sym.Job{ID: fmt.Sprintf("c07/%s/%s", cpuNames[cpu], m.Name), Pkg: "verif/harness/asmgen7", Func: "C07_" + m.Name, Args: []int64{int64(cpu)}})
				}
			}
			js = append(js, job("asmh7", "CloneAppendLemma", "c07/clone-append-keep-the-invariant/sep", 0))
			js = append(js, job("asmh7", "CloneAppendLemma", "c07/clone-append-keep-the-invariant/rep", 1))
			return js
		},
		Bounds:           []string{"inductive step: one emitter call (every straight-line instruction method, operands symbolic, tracked flags symbolic, any bank-contained base) followed by one CPU Step from a state whose K:PC equals the program counter the emitter reported and whose M/X equal the tracked widths; everything else in the CPU symbolic", "invariant carried along a program: Emitter.PC() == CPU K:PC and tracked (m,x) == CPU (M,X); REP/SEP with symbolic masks are ordinary steps", "conditional branches are run with the deciding flag set so that they are not taken (the statement excludes taken transfers)", "piecewise assembly: Clone starts at the parent's PC and widths, Append leaves the parent at the clone's PC and widths with the clone's bytes behind its own (lemma for the two non-emitting operations)"},
		Outside:          []string{"JMP/JML/JSR/JSL/RTS/RTL/RTI/BRA/PLP (taken control transfers and flag restores: excluded by the statement)", "label-reference forms (same opcodes as the immediate branch forms; operands decided in C06)", "an AssumeREP/AssumeSEP that contradicts the CPU (a false statement by the caller)"},
		Explanation:      "emitted bytes are copied into CPU memory at the emitter's base; after one real Step the CPU's next fetch address and width flags must equal the emitter's PC and tracked widths; conversely each immediate-operand method must be refused exactly on a width mismatch",
		ConformanceQuick: 48, ConformanceThorough: 512,
	})
	props = append(props, &PropDef{
		ID: "C18", Title: "Separate emulator, emitter and ROM instances never interfere across goroutines", Level: "other",
		Meta: func(tier string) []MetaSource {
			if tier == "thorough" {
				return []MetaSource{{"C01", 1}, {"C02", 1}, {"C03", 1}, {"C04", 1}, {"C05", 1}, {"C06", 1}, {"C07", 1}, {"C09", 1}, {"C10", 1}, {"C11", 1}, {"C12", 1}, {"C13", 4}, {"C14", 1}, {"C15", 1}, {"C16", 4}, {"C17", 1}, {"C19", 1}}
			}
			// prime strides: a job list that alternates between kinds of job (C11: address / long read) is
			// not sampled on one kind only
			return []MetaSource{{"C01", 5}, {"C02", 7}, {"C03", 1}, {"C04", 1}, {"C05", 1}, {"C06", 3}, {"C07", 1}, {"C09", 1}, {"C10", 5}, {"C11", 17}, {"C12", 7}, {"C13", 17}, {"C14", 5}, {"C15", 5}, {"C16", 31}, {"C17", 1}, {"C19", 7}}
		},
		Jobs:        func(tier string) []sym.Job { return nil },
		Bounds:      []string{"the quick-tier jobs of the other properties (quick: every k-th job per property, k prime, offset by VERIF_SEED; thorough: all of them), i.e. single steps of both CPUs for all opcodes, disassembly, CreateEmulator, RunUntil, every emitter method, Finalize, listings, Clone/Append, the mapping and colour functions, ROM/header code - each from symbolic inputs", "plus a syntactic scan of every repository function for stores through addresses derived from package-level variables"},
		Outside:     []string{"thread interleavings are NOT explored (this technique cannot): the property is decided through the sufficient condition its own statement gives - the library keeps no mutable state outside caller-owned objects; goroutines that touch disjoint memory cannot influence each other under the Go memory model", "data races on objects the caller shares deliberately"},
		Explanation: "write-set monitor: every store, map update, copy, append-in-place and delete executed on any feasible path of any job is checked against the set of objects reachable from the repository's package-level variables after initialisation; a write guarded by an infeasible condition is not flagged, a cache write reachable for some inputs is",
	})
	props = append(props, &PropDef{
		ID: "C19", Title: "Emission is all-or-nothing at capacity; dry-run emitters track addresses equally", Level: "model_checking",
		Patterns: []string{"verif/harness/asmgen", "verif/harness/c19"}, Overlay: asmOverlay, NativeOverlay: asmNativeOverlay, PreCheck: asmUnclassified,
		Jobs: func(tier string) []sym.Job {
			var js []sym.Job
			maxCap := 4
			if tier == "thorough" {
				maxCap = 6
			}
			for _, m := range asmMethods() {
				if m.Kind != "instr" && m.Kind != "label" {
					continue
				}
				for cp := 0; cp <= maxCap; cp++ {
					for pre := 0; pre <= cp; pre++ {
						if tier != "thorough" && cp-pre > m.Len { // quick: capacities from 'more than enough by one' down to 0 short
							continue
						}
						js = append(js, sym.Job{ID: fmt.Sprintf("c19/%s/cap%d/prefix%d", m.Name, cp, pre), Pkg: "verif/harness/asmgen", Func: "C19_" + m.Name, Args: []int64{int64(cp), int64(pre)}})
					}
				}
			}
			js = append(js, c19DataJobs(tier)...)
			return js
		},
		Bounds:           []string{"one call of each instruction method (operands, tracked flags, base symbolic; listing on/off) on a buffer of capacity 0..4 (thorough 0..6) already holding 0..capacity bytes and one label", "data blocks of length 0-5, 16, 17 at capacities from 3 short to exact", "dry-run twin: the same calls on an emitter without a buffer; call sequences of up to 3 (thorough 4) calls from a fixed alphabet", "the prefix may be followed by a second SetBase (base changed mid-stream); after a refusal Finalize must succeed and change nothing", "dry-run sequences include a piece built in a Clone and appended, and a SetBase in mid-stream (8-entry alphabet)"},
		Outside:          []string{"capacities above the listed ones (the capacity test is a single comparison that does not depend on magnitude - argued, not checked)"},
		Explanation:      "refusal is observed with vp.Try around the real method; after a refusal Bytes/Len/PC/labels must equal their values before the call",
		ConformanceQuick: 48, ConformanceThorough: 512,
	})
	props = append(props, &PropDef{
		ID: "C04", Title: "PakAddressToBus is a right inverse of BusAddressToPak", Level: "model_checking",
		Patterns: []string{"verif/harness/c04"},
		Jobs: func(tier string) []sym.Job {
			var js []sym.Job
			for m := 0; m < 4; m++ {
				js = append(js, job("c04", "BusRoundTrip", fmt.Sprintf("c04/bus-roundtrip/%s", mapperNames[m]), int64(m)))
				js = append(js, job("c04", "PakRoundTrip", fmt.Sprintf("c04/pak-roundtrip/%s", mapperNames[m]), int64(m)))
			}
			return js
		},
		Bounds:           []string{"bus and pak addresses: all 2^24 values each (one symbolic 32-bit variable assumed < 2^24), 4 mappers", "no loops in the encoded functions; no unwinding bound needed"},
		Outside:          []string{"addresses >= 2^24 (not addresses)"},
		Exhaustive:       true,
		Explanation:      "each mapper function pair is executed symbolically from SSA for an arbitrary 24-bit address; every assertion is one bit-vector query over the whole domain",
		ConformanceQuick: 32, ConformanceThorough: 512,
	})
	props = append(props, &PropDef{
		ID: "C05", Title: "Each mapper's bus decoding is a well-formed image of its memory map", Level: "model_checking",
		Patterns: []string{"verif/harness/c05"},
		Jobs: func(tier string) []sym.Job {
			var js []sym.Job
			for m := 0; m < 4; m++ {
				for _, f := range []string{"BusWellFormed", "PakRejection", "Console", "BusPages", "PakPages"} {
					js = append(js, job("c05", f, fmt.Sprintf("c05/%s/%s", f, mapperNames[m]), int64(m)))
				}
			}
			return js
		},
		Bounds:           []string{"bus and pak addresses: all 2^24 values each, 4 mappers", "loop-free implementation code; the oracle's table scan has a concrete trip count", "an accepted pak address must land, per the documented table, in a region of its own class"},
		Outside:          []string{"addresses >= 2^24"},
		Exhaustive:       true,
		Explanation:      "implementation arithmetic vs. spec/cartmap (declarative transcription of the library's documented region tables, DESIGN Appendix B) for an arbitrary 24-bit address",
		ConformanceQuick: 40, ConformanceThorough: 600,
	})
	props = append(props, &PropDef{
		ID: "C13", Title: "Bus routing follows Attach exactly and EaDump agrees with byte-wise reads", Level: "model_checking",
		Patterns:         []string{"verif/harness/c13"},
		Jobs:             c13Jobs,
		Bounds:           []string{"up to three successful Attach calls with ranges drawn from 8 aligned ranges inside a 512-byte window (overlapping, adjacent, nested, re-attached, single-segment, with holes): all 9^3 layouts in the thorough tier, all 9^2 two-attach layouts plus a sample of three-attach ones in the quick tier", "routing: read and write address symbolic over the whole window; misaligned Attach: start and end fully symbolic 24-bit values", "EaDump: start anywhere in a chosen segment, end anywhere in a segment 0-3 segments later (both low nibbles case-split, 256 paths per job), every third starting segment of the window, 11 layouts (thorough 17)", "an access, a dump and another access on one bus; a second read at an independent address after every routing job; the library's RAM and ROM devices behind the bus, a RAM of 128 KiB", "the three-byte read EaRead24_wrap at a symbolic address of the window for every layout of the routing jobs"},
		Outside:          []string{"more than three Attach calls; windows other than $0F00-$10FF (the segment table is indexed uniformly; argued)", "dump ranges longer than 4 segments"},
		Explanation:      "probe memories record every access (count, full address, value); the harness computes the owner of each 16-byte segment from the attach order and compares",
		ConformanceQuick: 48, ConformanceThorough: 400,
	})
	props = append(props, &PropDef{
		ID: "C14", Title: "Execution tracing is truthful and does not perturb execution", Level: "model_checking",
		Patterns: []string{"verif/harness/c14"},
		Jobs: func(tier string) []sym.Job {
			var js []sym.Job
			for cpu := 0; cpu < 2; cpu++ {
				for op := 0; op < 256; op++ {
					for mx := 0; mx < 4; mx++ {
						js = append(js, job("c14", "Line", fmt.Sprintf("c14/line/%s/%s/m%dx%d", cpuNames[cpu], opName(op), mx>>1, mx&1), int64(cpu), int64(op), int64(mx>>1), int64(mx&1)))
					}
				}
			}
			// cpualt's string-returning disassembler (a separate implementation of the same rendering)
			for op := 0; op < 256; op++ {
				for mx := 0; mx < 4; mx++ {
					if tier == "thorough" || mx == op%4 {
						js = append(js, job("c14", "Line", fmt.Sprintf("c14/line/alt-string/%s/m%dx%d", opName(op), mx>>1, mx&1), 2, int64(op), int64(mx>>1), int64(mx&1)))
					}
				}
			}
			js = append(js, c14LoggerJobs(tier)...)
			return js
		},
		Bounds:           []string{"one trace line per opcode x width setting x interpreter from an arbitrary native-mode state and memory (all registers, flags and operand bytes symbolic); the previous step's cycle count is fixed to one digit", "non-perturbation: the disassembler call from that arbitrary state; plus RunUntil with and without a Logger on the C12 program family", "a run of 0, 1 or 3 NOPs up to the target traced through a reserving logger for any 64-bit cycle budget"},
		Outside:          []string{"spacing and punctuation of the operand rendering (only required content is checked: bytes, mnemonic, operand digits high byte first, branch target, registers, flags)", "emulation mode", "cpualt's open-bus latch (not observable on a fully mapped bus)"},
		Explanation:      "the line is parsed without branching on symbolic characters and compared with the pre-state and the 65816 opcode matrix (length, mnemonic, operand layout, branch target)",
		ConformanceQuick: 64, ConformanceThorough: 1024,
	})
	props = append(props, &PropDef{
		ID: "C15", Title: "Assembler listings reproduce exactly the bytes that were emitted", Level: "model_checking",
		Solver: "z3-new", Fallbacks: []string{"cvc5"}, TimeoutQuickMs: 20000,
		Patterns:         []string{"verif/harness/c15"},
		Jobs:             c15Jobs,
		Bounds:           []string{"call sequences of at most 2 (thorough 3) calls from a 15-entry alphabet: 1/2/3/4-byte instructions with symbolic operands, labels, label references (relative and absolute), comments of length 0,1,5,119,120,121,200,300, data blocks of 0,1,2,15,16,17,32,33 symbolic bytes; base unset or any bank-contained symbolic base; before and after Finalize", "listings parsed without branching on symbolic characters (punctuation is searched among concrete bytes only, hex digits decoded arithmetically)", "the same sequences assembled in pieces (Clone taken at call index 0 or 1, Append before the listings) and data blocks whose source is the front of the target buffer itself"},
		Outside:          []string{"longer sequences (each listed line is rendered independently of the others; argued, not checked)", "mnemonic/operand rendering of text lines (not part of this property)", "label names longer than the listing's column width"},
		Explanation:      "the harness records what it issued (kind, address, byte range) and walks WriteHexTo/WriteTextTo output with it",
		ConformanceQuick: 48, ConformanceThorough: 400,
	})
	props = append(props, &PropDef{
		ID: "C16", Title: "Emitting through Clone and Append is equivalent to emitting directly", Level: "model_checking",
		Patterns: []string{"verif/harness/c16"}, PermuteMaps: false,
		Jobs:             c16Jobs,
		Bounds:           []string{"call sequences of at most 3 calls (thorough: plus every 16th sequence of 4 calls, and all four base/listing settings for the shorter ones) from a 12-entry alphabet (instructions with symbolic operands, SEP/REP with symbolic masks, two labels, relative and absolute references to them, data, comments, a width-guarded immediate), every split point, base unset/symbolic, listing on/off, tracked flags symbolic", "Append at capacities from ample to 3 bytes short"},
		Outside:          []string{"longer sequences; more than two labels", "map iteration order inside Clone/Append/Finalize is taken in insertion order here (all orders are explored in C06)"},
		Explanation:      "differential: the same real code fed directly vs. through Clone+Append; all observable getters, the text listing and the Finalize result are compared",
		ConformanceQuick: 48, ConformanceThorough: 400,
	})
	props = append(props, &PropDef{
		ID: "C17", Title: "15-bit colour packing is lossless and MulDiv scales with saturation", Level: "model_checking",
		Patterns: []string{"verif/harness/c17"},
		Jobs: func(tier string) []sym.Job {
			js := []sym.Job{
				job("c17", "UnpackPack", "c17/unpack-pack"),
				job("c17", "PackUnpack", "c17/pack-unpack"),
				job("c17", "MulDiv", "c17/muldiv"),
				job("c17", "MulDivIdentity", "c17/muldiv-identity"),
				job("c17", "MulDivMonotoneMul", "c17/muldiv-monotone-mul"),
				job("c17", "MulDivMonotoneDiv", "c17/muldiv-monotone-div"),
				job("c17", "Luminosity", "c17/luminosity"),
			}
			return js
		},
		Bounds:         []string{"colour: all 2^16 values; multiplicand: all 256; divisor: all 255 non-zero; channel triples: all 2^24", "loop-free code; no unwinding bound"},
		Outside:        []string{"divisor 0 (documented precondition; Go panics)", "monotonicity in the ratio mul/div across two different divisors at once (two symbolic multiplier/divisor pairs): unknown after 60 s per query on z3 5.1.0, cvc5 and cvc5 --solve-bv-as-int=sum, so it is not claimed by a query; it follows from the discharged obligation that every channel equals min(floor(ch*mul/div),31) exactly, floor being monotone"},
		Exhaustive:     true,
		Explanation:    "color15 functions executed symbolically; reference = per-channel min(floor(ch*mul/div),31) computed in 32 bits; the monotonicity clauses are decided as the property states them - as consequences of the exact formula: the real MulDiv is proved equal to the formula, the formula is proved monotone in the multiplicand and antitone in the divisor (lemma jobs that do not depend on how the implementation writes its arithmetic)",
		TimeoutQuickMs: 8000, TimeoutThoroughMs: 60000, Fallbacks: []string{"cvc5-int", "cvc5"},
		ConformanceQuick: 32, ConformanceThorough: 512,
	})
}

func c12RunUntilJobs(tier string) []sym.Job {
	k, budget := 2, 7
	if tier == "thorough" {
		k, budget = 3, 9
	}
	n := 1
	for i := 0; i < k; i++ {
		n *= 8
	}
	var js []sym.Job
	for p := 0; p < n; p++ {
		js = append(js, job("c12", "RunUntil", fmt.Sprintf("c12/run-until/k%d/prog%04o/budget<=%d", k, p, budget), int64(p), int64(k), int64(budget)))
	}
	return js
}

func c19DataJobs(tier string) []sym.Job {
	var js []sym.Job
	for _, n := range []int{0, 1, 2, 3, 4, 5, 16, 17} {
		for short := 0; short <= 3; short++ {
			for _, pre := range []int{0, 2} {
				cp := pre + n - short
				if cp < pre {
					continue
				}
				js = append(js, job("c19", "Data", fmt.Sprintf("c19/EmitBytes/len%d/prefix%d/short%d", n, pre, short), int64(n), int64(cp), int64(pre)))
			}
		}
	}
	k := 3
	if tier == "thorough" {
		k = 4
	}
	n := 1
	for i := 0; i < k; i++ {
		n *= 8
	}
	for p := 0; p < n; p++ {
		js = append(js, job("c19", "DrySequence", fmt.Sprintf("c19/dry-sequence/k%d/%0*o", k, k, p), int64(p), int64(k)))
	}
	return js
}

// c06 op codes
const (
	oL0, oL1, oB0, oB1, oJ0, oJ1, oN = 1, 2, 3, 4, 5, 6, 7
)

func c06Pad(k int) []int { // ops emitting exactly k pad bytes (k <= 130)
	sizes := []int{1, 2, 3, 123, 124, 125, 126, 127}
	var ops []int
	for k > 0 {
		best := -1
		for i, s := range sizes {
			if s <= k {
				best = i
			}
		}
		ops = append(ops, 8+best)
		k -= sizes[best]
	}
	return ops
}

func c06Jobs(tier string) []sym.Job {
	var js []sym.Job
	// symbolic-address jobs (in-package harness): shape = L0 defined | L1 defined<<1 | #S8 refs<<2 | #U16 refs<<4
	for shape := 0; shape < 32; shape++ {
		if shape>>2&3 == 3 {
			continue
		}
		js = append(js, sym.Job{ID: fmt.Sprintf("c06/symbolic-addresses/shape%02d", shape), Pkg: "github.com/alttpo/snes/asm", Func: "ZZVerifFinalizeSym", Args: []int64{int64(shape)}})
	}
	seen := map[string]bool{}
	add := func(name string, br, base int, ops ...int) {
		if len(ops) > 15 {
			return
		}
		var prog int64
		for i := len(ops) - 1; i >= 0; i-- {
			prog = prog<<4 | int64(ops[i])
		}
		id := fmt.Sprintf("c06/%s/br%d/base%d", name, br, base)
		if seen[id] {
			return
		}
		seen[id] = true
		js = append(js, job("c06", "Program", id, prog, int64(len(ops)), int64(br), int64(base)))
	}
	cat := func(parts ...[]int) []int {
		var out []int
		for _, p := range parts {
			out = append(out, p...)
		}
		return out
	}
	dists := []int{0, 1, 2, 125, 126, 127, 128, 129}
	if tier == "thorough" {
		dists = []int{0, 1, 2, 3, 64, 124, 125, 126, 127, 128, 129, 130}
	}
	brs := []int{0, 6}
	if tier == "thorough" {
		brs = []int{0, 1, 2, 3, 4, 5, 6}
	}
	for bi, br := range brs {
		for _, base := range []int{0, 1} {
			for _, k := range dists {
				// backward: L0 pad(k) B0   (distance -(k+2))   forward: B0 pad(k) L0 (distance +k)
				add(fmt.Sprintf("backward/pad%d", k), br, base, cat([]int{oN, oL0}, c06Pad(k), []int{oB0, oN})...)
				add(fmt.Sprintf("forward/pad%d", k), br, base, cat([]int{oN, oB0}, c06Pad(k), []int{oL0, oN})...)
				if bi == 0 || tier == "thorough" {
					add(fmt.Sprintf("two-forward/pad%d", k), br, base, cat([]int{oB0, oN, oB0}, c06Pad(k), []int{oL0})...)
					add(fmt.Sprintf("two-backward/pad%d", k), br, base, cat([]int{oL0}, c06Pad(k), []int{oB0, oB0})...)
					add(fmt.Sprintf("jmp-forward+branch/pad%d", k), br, base, cat([]int{oJ0, oB0}, c06Pad(k), []int{oL0})...)
					add(fmt.Sprintf("jmp-backward+branch/pad%d", k), br, base, cat([]int{oL0}, c06Pad(k), []int{oJ0, oB0})...)
					add(fmt.Sprintf("two-labels/pad%d", k), br, base, cat([]int{oB0, oB1, oJ1}, c06Pad(k), []int{oL0, oN, oL1, oJ0})...)
					add(fmt.Sprintf("one-missing-one-far/pad%d", k), br, base, cat([]int{oB1, oB0}, c06Pad(k), []int{oL0})...)
				}
			}
			add("missing-label", br, base, oN, oB0, oN)
			add("missing-wide-label", br, base, oJ1, oN)
			add("one-of-two-missing", br, base, oB0, oB1, oJ0, oL0)
			add("both-missing", br, base, oB0, oJ1)
			add("duplicate-label", br, base, oL0, oN, oL0, oB0)
			add("duplicate-after-reference", br, base, oB1, oL1, oN, oL1)
			add("no-references", br, base, oL0, oN, oL1)
			add("three-references", br, base, oB0, oB0, oJ0, oL0, oB0)
			add("empty", br, base)
		}
	}
	if tier != "thorough" {
		// every one of the seven relative-branch methods records its reference (quick tier: the
		// remaining five methods on the smallest templates; the thorough tier runs them all everywhere)
		for br := 1; br <= 5; br++ {
			add("forward/pad1", br, br%2, oN, oB0, 8+0, oL0, oN)
			add("backward/pad1", br, (br+1)%2, oN, oL0, 8+0, oB0, oN)
			add("missing-label", br, br%2, oN, oB0, oN)
			add("forward/pad127", br, br%2, cat([]int{oN, oB0}, c06Pad(127), []int{oL0, oN})...)
			add("forward/pad128", br, br%2, cat([]int{oN, oB0}, c06Pad(128), []int{oL0, oN})...)
		}
	}
	return js
}

func c15Jobs(tier string) []sym.Job {
	var js []sym.Job
	add := func(ops []int, tbl, base, fin int) {
		var prog int64
		name := ""
		for i := len(ops) - 1; i >= 0; i-- {
			prog = prog<<4 | int64(ops[i])
		}
		for _, o := range ops {
			name += fmt.Sprintf("%x", o)
		}
		js = append(js, job("c15", "Listing", fmt.Sprintf("c15/seq-%s/tbl%d/base%d/fin%d", name, tbl, base, fin), prog, int64(len(ops)), int64(tbl), int64(base), int64(fin)))
	}
	for a := 1; a <= 15; a++ {
		for _, cfg := range [][3]int{{0, 0, 0}, {0, 1, 1}, {1, 1, 0}, {1, 0, 1}} {
			add([]int{a}, cfg[0], cfg[1], cfg[2])
		}
		for b := 1; b <= 15; b++ {
			add([]int{a, b}, (a+b)%2, a%2, b%2)
			if tier == "thorough" {
				add([]int{a, b}, (a+b+1)%2, (a+1)%2, (b+1)%2)
				for c := 1; c <= 15; c++ {
					add([]int{a, b, c}, (a+b+c)%2, (a+c)%2, (b+c)%2)
				}
			}
		}
	}
	// assembled in pieces (Clone at call index split, Append at the end), and data sourced from the target buffer
	piece := func(ops []int, tbl, base, fin, split, alias int) {
		var prog int64
		name := ""
		for i := len(ops) - 1; i >= 0; i-- {
			prog = prog<<4 | int64(ops[i])
		}
		for _, o := range ops {
			name += fmt.Sprintf("%x", o)
		}
		js = append(js, job("c15", "Pieces", fmt.Sprintf("c15/pieces/seq-%s/tbl%d/base%d/fin%d/split%d/alias%d", name, tbl, base, fin, split, alias), prog, int64(len(ops)), int64(tbl), int64(base), int64(fin), int64(split), int64(alias)))
	}
	for a := 1; a <= 15; a++ {
		for b := 1; b <= 15; b++ {
			if tier != "thorough" && (a*3+b)%4 != 0 {
				continue
			}
			for split := 0; split <= 1; split++ {
				piece([]int{a, b}, (a+b)%2, (a+split)%2, b%2, split, 0)
			}
		}
		if a >= 12 {
			for _, pre := range []int{1, 3, 4, 13} {
				piece([]int{pre, a}, 0, a%2, 0, -1, 1)
				piece([]int{pre, a}, 1, 1, 0, 1, 1)
			}
		}
	}
	if tier != "thorough" { // a few triples in the quick tier as well
		for _, t := range [][]int{{5, 14, 6}, {6, 13, 5}, {2, 15, 3}, {7, 9, 5}, {12, 12, 12}, {4, 5, 7}, {14, 1, 14}, {3, 10, 15}} {
			add(t, 0, 1, 1)
			add(t, 1, 0, 0)
		}
	}
	return js
}

func c16Jobs(tier string) []sym.Job {
	var js []sym.Job
	k := 3
	if tier == "thorough" {
		k = 4
	}
	alphabet := 12
	var rec func(ops []int)
	emit := func(ops []int) {
		var prog int64
		name := ""
		for i := len(ops) - 1; i >= 0; i-- {
			prog = prog<<4 | int64(ops[i])
		}
		sum := 0
		for _, o := range ops {
			name += fmt.Sprintf("%x", o)
			sum += o
		}
		for split := 0; split <= len(ops); split++ {
			base, listing := (sum+split)%2, (sum/2+split)%2
			if (tier == "thorough" && len(ops) < 4) || len(ops) < 3 { // all four (base, listing) settings; longest sequences: one
				for cfg := 0; cfg < 4; cfg++ {
					js = append(js, job("c16", "Split", fmt.Sprintf("c16/seq-%s/split%d/base%d/listing%d", name, split, cfg&1, cfg>>1), prog, int64(len(ops)), int64(split), int64(cfg&1), int64(cfg>>1)))
				}
				continue
			}
			js = append(js, job("c16", "Split", fmt.Sprintf("c16/seq-%s/split%d/base%d/listing%d", name, split, base, listing), prog, int64(len(ops)), int64(split), int64(base), int64(listing)))
		}
	}
	nseq4 := 0
	rec = func(ops []int) {
		if len(ops) == 4 {
			// thorough tier: every 16th of the ~20 000 four-call sequences (all of them would be
			// 100 000 jobs and two and a half hours for no new code path)
			nseq4++
			if nseq4%16 == 0 {
				emit(ops)
			}
		} else if len(ops) > 0 {
			emit(ops)
		}
		if len(ops) == k {
			return
		}
		for o := 1; o <= alphabet; o++ {
			// a label may be defined once
			dup := false
			for _, p := range ops {
				if (o == 5 || o == 6) && p == o {
					dup = true
				}
			}
			if dup {
				continue
			}
			rec(append(append([]int{}, ops...), o))
		}
	}
	rec(nil)
	for nrefs := 0; nrefs <= 6; nrefs++ {
		for listing := 0; listing < 2; listing++ {
			js = append(js, job("c16", "TwoClones", fmt.Sprintf("c16/two-clones/refs%d/listing%d", nrefs, listing), int64(nrefs), int64(listing)))
		}
	}
	for cp := 2; cp <= 8; cp++ {
		for head := 0; head <= 3 && head <= cp; head++ {
			for tail := 0; tail <= 3; tail++ {
				d := head + tail + 2 - cp
				if d < -1 || d > 3 {
					continue
				}
				for listing := 0; listing < 2; listing++ {
					js = append(js, job("c16", "AppendTooBig", fmt.Sprintf("c16/append-capacity/cap%d/head%d/tail%d/listing%d", cp, head, tail, listing), int64(cp), int64(head), int64(tail), int64(listing)))
				}
			}
		}
	}
	for _, n := range []int{1, 2, 3, 5, 6, 9} {
		js = append(js, job("c16", "SharedFragment", fmt.Sprintf("c16/shared-fragment/lines%d", n), int64(n)))
	}
	return js
}

func c13Jobs(tier string) []sym.Job {
	var js []sym.Job
	var layouts []int
	for l := 0; l < 9*9*9; l++ {
		third := l / 81
		if tier == "thorough" || third == 0 || l%7 == 3 {
			layouts = append(layouts, l)
		}
	}
	for _, l := range layouts {
		js = append(js, job("c13", "Route", fmt.Sprintf("c13/route/layout%03d", toBase9(l)), int64(l)))
		js = append(js, job("c13", "Route24", fmt.Sprintf("c13/route24/layout%03d", toBase9(l)), int64(l)))
	}
	js = append(js, job("c13", "Devices", "c13/library-devices/ram+rom"))
	js = append(js, job("c13", "LargeDevice", "c13/library-devices/ram-128KiB"))
	for _, l := range []int{0, 1, 4, 1 + 9*3, 2 + 9*4 + 81*5} {
		js = append(js, job("c13", "Misaligned", fmt.Sprintf("c13/misaligned/layout%03d/any-24-bit-range", toBase9(l)), int64(l), -1, -1))
		for _, sg := range [][2]int{{9, 9}, {9, 12}, {4, 20}, {14, 15}} {
			js = append(js, job("c13", "Misaligned", fmt.Sprintf("c13/misaligned/layout%03d/seg%d-%d", toBase9(l), sg[0], sg[1]), int64(l), int64(sg[0]), int64(sg[1])))
		}
	}
	dumpLayouts := []int{0, 1, 2, 3, 4, 5, 1 + 9*4, 2 + 9*3, 4 + 9*5, 2 + 9*3 + 81*8, 5 + 9*7 + 81*6}
	maxSeg := 3
	if tier == "thorough" {
		// six more layouts than the quick tier (each dump job has 256 paths; a first sizing with 28
		// layouts, spans of up to 5 segments and every start segment did not finish in three hours
		// including the cross-solver pass)
		for l := 0; l < 81; l += 15 {
			dumpLayouts = append(dumpLayouts, l+81*((l/5)%9))
		}
	}
	for _, l := range dumpLayouts {
		for nseg := 0; nseg <= maxSeg; nseg++ {
			for seg0 := 6; seg0+nseg <= 25; seg0 += 1 {
				if seg0%3 != (l+nseg)%3 {
					continue
				}
				js = append(js, job("c13", "Dump", fmt.Sprintf("c13/dump/layout%03d/seg%02d+%d", toBase9(l), seg0, nseg), int64(l), int64(seg0), int64(nseg)))
				if nseg >= 1 {
					js = append(js, job("c13", "AfterDump", fmt.Sprintf("c13/access-after-dump/layout%03d/seg%02d+%d", toBase9(l), seg0, nseg), int64(l), int64(seg0), int64(nseg)))
				}
			}
		}
	}
	return js
}

func toBase9(l int) int { return l%9 + 10*(l/9%9) + 100*(l/81) }

func c14LoggerJobs(tier string) []sym.Job {
	k, budget := 2, 7
	if tier == "thorough" {
		k, budget = 3, 9
	}
	n := 1
	for i := 0; i < k; i++ {
		n *= 8
	}
	var js []sym.Job
	long := 300
	if tier == "thorough" {
		long = 600
	}
	js = append(js, job("c14", "LoggerLongRun", fmt.Sprintf("c14/logger-long-run/budget<=%d", long), int64(long)))
	for _, n := range []int{0, 1, 3} {
		js = append(js, job("c14", "LoggerAnyBudget", fmt.Sprintf("c14/logger-any-64-bit-budget/nops%d", n), int64(n)))
	}
	for p := 0; p < n; p++ {
		js = append(js, job("c14", "LoggerOnOff", fmt.Sprintf("c14/logger-on-off/k%d/prog%04o/budget<=%d", k, p, budget), int64(p), int64(k), int64(budget)))
	}
	return js
}
