package main

import (
	"fmt"

	"verif/internal/sym"
	"verif/spec/w65816"
)

// opName renders an opcode as "op61-adc-(d,x)" for job ids.
func opName(op int) string {
	e := w65816.Table[op]
	return fmt.Sprintf("op%02x-%s-%s", op, w65816.MnNames[e.Mn], w65816.ModeNames[e.Mode])
}

// PropDef describes how one property is decided.
type PropDef struct {
	ID          string
	Title       string
	Level       string
	Patterns    []string // packages loaded into the engine
	Jobs        func(tier string) []sym.Job
	Bounds      []string
	Outside     []string
	Assumptions []string
	Explanation string
	Exhaustive  bool
	PermuteMaps bool
	Unwind      int
	SetupPkg    string
	Setup       string
	SingleSolver bool
	Solver      string // primary solver back end (default z3)
	Fallbacks   []string // solver back ends tried when z3 answers unknown
	TimeoutQuickMs, TimeoutThoroughMs int
	ConformanceQuick, ConformanceThorough int
	Overlay     func() (map[string][]byte, error) // engine overlay (in-package harnesses)
	NativeOverlay func(work string) string          // go build -overlay file for the replayer
}

func (p *PropDef) timeoutMs(tier string) int {
	if tier == "thorough" && p.TimeoutThoroughMs > 0 {
		return p.TimeoutThoroughMs
	}
	if p.TimeoutQuickMs > 0 {
		return p.TimeoutQuickMs
	}
	return 60000
}

func (p *PropDef) solver() string {
	if p.Solver != "" {
		return p.Solver
	}
	return "z3"
}

func (p *PropDef) overlay() (map[string][]byte, error) {
	if p.Overlay == nil {
		return nil, nil
	}
	return p.Overlay()
}

func (p *PropDef) nativeOverlayFile(work string) string {
	if p.NativeOverlay == nil {
		return ""
	}
	return p.NativeOverlay(work)
}

var props []*PropDef

func allProps() []*PropDef { return props }

func propByID(id string) *PropDef {
	for _, p := range props {
		if p.ID == id {
			return p
		}
	}
	return nil
}

func job(pkg, fn string, id string, args ...int64) sym.Job {
	return sym.Job{ID: id, Pkg: "verif/harness/" + pkg, Func: fn, Args: args}
}

var cpuNames = []string{"main", "alt"}

var mapperNames = []string{"lorom", "hirom", "exhirom", "sa1rom"}

func init() {
	props = append(props, &PropDef{
		ID: "C01", Title: "Both 65C816 interpreters execute native-mode code per the WDC model", Level: "model_checking",
		Solver: "z3-new", Fallbacks: []string{"cvc5"}, TimeoutQuickMs: 20000,
		Patterns: []string{"verif/harness/c01"},
		Jobs: func(tier string) []sym.Job {
			var js []sym.Job
			for cpu := 0; cpu < 2; cpu++ {
				for op := 0; op < 256; op++ {
					for mx := 0; mx < 4; mx++ {
						m, x := mx>>1, mx&1
						js = append(js, job("c01", "Step", fmt.Sprintf("c01/%s/%s/m%dx%d", cpuNames[cpu], opName(op), m, x), int64(cpu), int64(op), int64(m), int64(x)))
					}
				}
			}
			return js
		},
		Bounds:      []string{"one instruction (Step is loop-free; MVN/MVP move one byte per Step) from an arbitrary native-mode state", "all 256 opcodes x 4 (m,x) settings x 2 interpreters enumerated as separate jobs; every register, flag, hidden register copy and all 16 MiB of memory symbolic", "instruction sequences: by induction, the post-state again satisfies the only invariant assumed of the pre-state (flag bytes in {0,1})"},
		Outside:     []string{"emulation mode (E=1 before the step)", "pending interrupts", "decimal ADC/SBC with invalid BCD digits; the V flag after decimal ADC/SBC", "WAI/STP wake-up", "cycle counts (C02/C12)"},
		Explanation: "real Step of either interpreter vs. spec/w65816 reference on the abstraction of the same symbolic pre-state and memory; one labelled obligation per architectural component",
		ConformanceQuick: 64, ConformanceThorough: 2048,
	})
	props = append(props, &PropDef{
		ID: "C04", Title: "PakAddressToBus is a right inverse of BusAddressToPak", Level: "model_checking",
		Patterns: []string{"verif/harness/c04"},
		Jobs: func(tier string) []sym.Job {
			var js []sym.Job
			for m := 0; m < 4; m++ {
				js = append(js, job("c04", "BusRoundTrip", fmt.Sprintf("c04/bus-roundtrip/%s", mapperNames[m]), int64(m)))
				js = append(js, job("c04", "PakRoundTrip", fmt.Sprintf("c04/pak-roundtrip/%s", mapperNames[m]), int64(m)))
			}
			return js
		},
		Bounds:      []string{"bus and pak addresses: all 2^24 values each (one symbolic 32-bit variable assumed < 2^24), 4 mappers", "no loops in the encoded functions; no unwinding bound needed"},
		Outside:     []string{"addresses >= 2^24 (not addresses)"},
		Exhaustive:  true,
		Explanation: "each mapper function pair is executed symbolically from SSA for an arbitrary 24-bit address; every assertion is one bit-vector query over the whole domain",
		ConformanceQuick: 32, ConformanceThorough: 512,
	})
	props = append(props, &PropDef{
		ID: "C05", Title: "Each mapper's bus decoding is a well-formed image of its memory map", Level: "model_checking",
		Patterns: []string{"verif/harness/c05"},
		Jobs: func(tier string) []sym.Job {
			var js []sym.Job
			for m := 0; m < 4; m++ {
				for _, f := range []string{"BusWellFormed", "PakRejection", "Console", "BusPages", "PakPages"} {
					js = append(js, job("c05", f, fmt.Sprintf("c05/%s/%s", f, mapperNames[m]), int64(m)))
				}
			}
			return js
		},
		Bounds:      []string{"bus and pak addresses: all 2^24 values each, 4 mappers", "loop-free implementation code; the oracle's table scan has a concrete trip count"},
		Outside:     []string{"addresses >= 2^24"},
		Exhaustive:  true,
		Explanation: "implementation arithmetic vs. spec/cartmap (declarative transcription of the library's documented region tables, DESIGN Appendix B) for an arbitrary 24-bit address",
		ConformanceQuick: 40, ConformanceThorough: 600,
	})
	props = append(props, &PropDef{
		ID: "C17", Title: "15-bit colour packing is lossless and MulDiv scales with saturation", Level: "model_checking",
		Patterns: []string{"verif/harness/c17"},
		Jobs: func(tier string) []sym.Job {
			js := []sym.Job{
				job("c17", "UnpackPack", "c17/unpack-pack"),
				job("c17", "PackUnpack", "c17/pack-unpack"),
				job("c17", "MulDiv", "c17/muldiv"),
				job("c17", "MulDivIdentity", "c17/muldiv-identity"),
				job("c17", "MulDivMonotoneMul", "c17/muldiv-monotone-mul"),
				job("c17", "MulDivMonotoneDiv", "c17/muldiv-monotone-div"),
				job("c17", "Luminosity", "c17/luminosity"),
			}
			if tier == "thorough" {
				for ch := 0; ch < 32; ch++ {
					js = append(js, job("c17", "MulDivMonotone", fmt.Sprintf("c17/muldiv-monotone-ratio/ch%02d", ch), int64(ch)))
				}
			}
			return js
		},
		Bounds:      []string{"colour: all 2^16 values; multiplicand: all 256; divisor: all 255 non-zero; channel triples: all 2^24", "loop-free code; no unwinding bound"},
		Outside:     []string{"divisor 0 (documented precondition; Go panics)"},
		Exhaustive:  true,
		Explanation: "color15 functions executed symbolically; reference = per-channel min(floor(ch*mul/div),31) computed in 32 bits",
		TimeoutQuickMs: 8000, TimeoutThoroughMs: 60000, Fallbacks: []string{"cvc5-int", "cvc5"},
		ConformanceQuick: 32, ConformanceThorough: 512,
	})
}
