package main

import (
	"encoding/json"
	"fmt"
	"os"
	"os/exec"
	"path/filepath"
	"regexp"
	"sort"
	"strings"

	"verif/internal/sym"
)

type violation struct {
	Job        sym.Job
	Label      string
	Note       string
	Known      string // non-empty: listed known finding
	ReplayPath string
	Reproduced bool
	NoReplay   bool // obligation cannot be replayed natively (engine-level monitor)
	Detail     string
	Tags       map[string]uint64
}

type report struct {
	pd                           *PropDef
	tier                         string
	seed                         int64
	wall                         float64
	sum                          *runSummary
	viols                        []*violation
	incon                        []string
	vacuous                      []string
	cross                        []string // cross-solver disagreements
	crossChecked                 int
	confRuns, confMismatch       int
	confNotes                    []string
	counts                       map[sym.ObStatus]int
	samples                      []interface{}
	paths, instrs, forks, merges int
	labelSet                     map[string]bool
	assumptions                  map[string]bool
	slowest                      float64
	replayer                     string
	usedPaths                    map[string]int
}

func newReport(pd *PropDef, tier string, seed int64) *report {
	return &report{pd: pd, tier: tier, seed: seed, counts: map[sym.ObStatus]int{}, labelSet: map[string]bool{}, assumptions: map[string]bool{}}
}

var safeRe = regexp.MustCompile(`[^A-Za-z0-9_.-]+`)

func (r *report) absorb(sum *runSummary, solver string) {
	r.sum = sum
	for _, f := range sum.fatal {
		r.incon = append(r.incon, "fatal: "+f)
	}
	for _, jr := range sum.results {
		r.paths += jr.Paths
		r.instrs += jr.Stats.Instrs
		r.forks += jr.Stats.Forks
		r.merges += jr.Stats.Merges
		for _, a := range jr.Assumptions {
			r.assumptions[a] = true
		}
		if jr.Inconclusive != "" {
			r.incon = append(r.incon, jr.Job.ID+": "+jr.Inconclusive)
		}
		if len(jr.Reached) == 0 && jr.Inconclusive == "" {
			r.vacuous = append(r.vacuous, jr.Job.ID)
		}
		for _, ob := range jr.Obligations {
			r.counts[ob.Status]++
			r.labelSet[ob.Label] = true
			if ob.Sec > r.slowest {
				r.slowest = ob.Sec
			}
			switch ob.Status {
			case sym.ObInconclusive:
				r.incon = append(r.incon, fmt.Sprintf("%s/%s: %s", jr.Job.ID, ob.Label, ob.Note))
			case sym.ObViolated, sym.ObKnown:
				v := &violation{Job: jr.Job, Label: ob.Label, Note: ob.Note, Known: ob.Finding, Tags: ob.Tags}
				dir := filepath.Join(verifDir, "replays", r.pd.ID)
				os.MkdirAll(dir, 0o755)
				v.ReplayPath = filepath.Join(dir, safeRe.ReplaceAllString(jr.Job.ID+"__"+ob.Label, "_")+".json")
				if ob.Status == sym.ObKnown {
					v.ReplayPath = strings.TrimSuffix(v.ReplayPath, ".json") + "__known.json"
				}
				if r.usedPaths == nil {
					r.usedPaths = map[string]int{}
				}
				r.usedPaths[v.ReplayPath]++
				if n := r.usedPaths[v.ReplayPath]; n > 1 { // same obligation violated on another structural path
					v.ReplayPath = strings.TrimSuffix(v.ReplayPath, ".json") + fmt.Sprintf("__path%d.json", n)
				}
				rf := map[string]interface{}{"property": r.pd.ID, "job": jr.Job, "label": ob.Label, "note": ob.Note, "tags": ob.Tags}
				if ob.Model != nil {
					rf["scalars"] = ob.Model.Scalars
					rf["arrays"] = ob.Model.Arrays
					rf["choices"] = ob.Model.Choices
				}
				b, _ := json.MarshalIndent(rf, "", " ")
				os.WriteFile(v.ReplayPath, b, 0o644)
				if ob.Label == "no-write-to-package-state" {
					v.NoReplay = true
				}
				r.viols = append(r.viols, v)
			}
			if len(r.samples) < 6 && (ob.Status == sym.ObDischarged || ob.Status == sym.ObViolated || ob.Status == sym.ObKnown) {
				r.samples = append(r.samples, map[string]interface{}{"job": jr.Job.ID, "obligation": ob.Label, "status": ob.Status, "solver": solver, "solver_sec": ob.Sec, "formula_nodes": ob.Size})
			}
		}
	}
}

// crossCheck compares verdicts of a second solver with the primary ones.
func (r *report) crossCheck(s2 *runSummary, solver string) {
	// Verdicts are compared per (job, obligation label): the number and order of paths may differ
	// between back ends (a feasibility query one solver decides and the other does not keeps or drops
	// a path), so obligations are not matched by position. Per label the worst status counts:
	// violated > known > inconclusive > held (discharged by a solver or closed by the simplifier).
	rank := func(s sym.ObStatus) int {
		switch s {
		case sym.ObViolated:
			return 3
		case sym.ObKnown:
			return 2
		case sym.ObInconclusive:
			return 1
		}
		return 0
	}
	names := []string{"held", "inconclusive", "known", "violated"}
	worst := func(results []*sym.JobResult) map[string]int {
		m := map[string]int{}
		for _, jr := range results {
			for _, ob := range jr.Obligations {
				k := jr.Job.ID + "/" + ob.Label
				if v, ok := m[k]; !ok || rank(ob.Status) > v {
					m[k] = rank(ob.Status)
				}
			}
		}
		return m
	}
	prim := worst(r.sum.results)
	for _, f := range s2.fatal {
		r.incon = append(r.incon, solver+" fatal: "+f)
	}
	for _, jr := range s2.results {
		if jr.Inconclusive != "" {
			r.incon = append(r.incon, solver+": "+jr.Job.ID+": "+jr.Inconclusive)
		}
	}
	sec := worst(s2.results)
	var keys []string
	for k := range sec {
		keys = append(keys, k)
	}
	sort.Strings(keys)
	for _, k := range keys {
		r.crossChecked++
		p, ok := prim[k]
		v := sec[k]
		if ok && p == v {
			continue
		}
		if v == 1 {
			pn := "absent"
			if ok {
				pn = names[p]
			}
			r.confNotes = append(r.confNotes, fmt.Sprintf("%s could not decide %s; primary verdict %s kept", solver, k, pn))
			continue
		}
		if !ok && v == 0 {
			continue // an obligation on a path only this back end kept, and it holds there
		}
		pn := "absent"
		if ok {
			pn = names[p]
		}
		r.cross = append(r.cross, fmt.Sprintf("%s: %s=%s %s=%s", k, r.pd.solver(), pn, solver, names[v]))
	}
	r.sum.solver.Queries += s2.solver.Queries
	r.sum.solver.SolverSec += s2.solver.SolverSec
}

type replayOut struct {
	File         string   `json:"file"`
	Failures     []string `json:"failures"`
	Reached      []string `json:"reached"`
	Observed     []string `json:"observed"`
	AssumeFailed bool     `json:"assume_failed"`
	Panicked     string   `json:"panicked"`
	Err          string   `json:"err"`
}

func goEnv() []string {
	return append(os.Environ(), "GOFLAGS=-mod=mod", "GOPROXY=off", "GOSUMDB=off", "GOTOOLCHAIN=local")
}

// buildReplayer compiles the native replayer against /repo's current tree.
func buildReplayer(pd *PropDef, work string) (string, error) {
	bin := filepath.Join(work, "replayer")
	args := []string{"build", "-o", bin}
	if ov := pd.nativeOverlayFile(work); ov != "" {
		args = append(args, "-overlay", ov)
	}
	args = append(args, "./cmd/replayer")
	cmd := exec.Command("go", args...)
	cmd.Dir = verifDir
	cmd.Env = goEnv()
	if out, err := cmd.CombinedOutput(); err != nil {
		return "", fmt.Errorf("building replayer: %v: %s", err, tail(string(out), 1500))
	}
	return bin, nil
}

func runReplayer(bin string, args ...string) ([]replayOut, error) {
	cmd := exec.Command(bin, args...)
	cmd.Dir = verifDir
	cmd.Env = goEnv()
	out, err := cmd.Output()
	if err != nil {
		return nil, fmt.Errorf("replayer: %v", err)
	}
	var res []replayOut
	for _, l := range strings.Split(strings.TrimSpace(string(out)), "\n") {
		if l == "" {
			continue
		}
		var ro replayOut
		if err := json.Unmarshal([]byte(l), &ro); err == nil {
			res = append(res, ro)
		}
	}
	return res, nil
}

func (r *report) replayAll(work string) {
	var files []string
	byFile := map[string]*violation{}
	for _, v := range r.viols {
		if v.NoReplay {
			v.Reproduced = true
			continue
		}
		files = append(files, v.ReplayPath)
		byFile[v.ReplayPath] = v
	}
	if len(files) == 0 {
		return
	}
	bin := r.replayer
	if bin == "" {
		return
	}
	// Go randomises the iteration order of maps per run; the engine explored one particular order
	// (or, with PermuteMaps, all of them). A counterexample that depends on that order is replayed
	// again (a fresh process each time) until the native run happens to take it, up to 12 times.
	for attempt := 0; attempt < 12 && len(files) > 0; attempt++ {
		if attempt > 0 {
			var again []string
			for _, f := range files {
				if v := byFile[f]; !v.Reproduced && !strings.HasPrefix(v.Detail, "replay") {
					again = append(again, f)
				}
			}
			files = again
		}
		r.replayOnce(bin, files, byFile)
	}
	for _, v := range r.viols {
		if !v.Reproduced {
			r.incon = append(r.incon, fmt.Sprintf("%s/%s: solver model did not reproduce natively (engine-mismatch) %s replay=%s", v.Job.ID, v.Label, v.Detail, v.ReplayPath))
		}
	}
}

func (r *report) replayOnce(bin string, files []string, byFile map[string]*violation) {
	// batches keep the command line short
	for lo := 0; lo < len(files); lo += 50 {
		hi := lo + 50
		if hi > len(files) {
			hi = len(files)
		}
		outs, err := runReplayer(bin, append([]string{"replay"}, files[lo:hi]...)...)
		if err != nil {
			r.incon = append(r.incon, err.Error())
			continue
		}
		for _, ro := range outs {
			v := byFile[ro.File]
			if v == nil {
				continue
			}
			switch {
			case ro.Err != "":
				v.Detail = "replay error: " + ro.Err
			case ro.AssumeFailed:
				v.Detail = "replay: an assumption did not hold for the model (engine/model mismatch)"
			case v.Label == "no-unexpected-panic":
				v.Reproduced = ro.Panicked != ""
				v.Detail = "native panic: " + ro.Panicked
			default:
				for _, f := range ro.Failures {
					if f == v.Label {
						v.Reproduced = true
					}
				}
				if ro.Panicked != "" {
					v.Detail = "native run panicked: " + ro.Panicked
				}
			}
		}
	}
}

// conformance compares concrete engine runs (already executed by the workers) with native runs.
func (r *report) conformance(sel []sym.Job, results []*sym.JobResult, work string) {
	bin := r.replayer
	sum := &runSummary{results: results}
	jf := filepath.Join(work, "conf-jobs.json")
	jb, _ := json.Marshal(sel)
	os.WriteFile(jf, jb, 0o644)
	outs, err := runReplayer(bin, "conf", jf)
	if err != nil {
		r.incon = append(r.incon, "conformance: "+err.Error())
		return
	}
	native := map[string]replayOut{}
	for _, o := range outs {
		native[o.File] = o
	}
	for _, jr := range sum.results {
		nat, ok := native[jr.Job.ID]
		if !ok {
			r.incon = append(r.incon, "conformance: no native result for "+jr.Job.ID)
			continue
		}
		r.confRuns++
		if jr.Inconclusive != "" {
			r.confMismatch++
			r.confNotes = append(r.confNotes, fmt.Sprintf("%s: engine inconclusive in concrete mode: %s", jr.Job.ID, jr.Inconclusive))
			continue
		}
		engFail := map[string]bool{}
		for _, ob := range jr.Obligations {
			if ob.Status == sym.ObViolated || ob.Status == sym.ObKnown {
				engFail[ob.Label] = true
			}
		}
		natFail := map[string]bool{}
		for _, f := range nat.Failures {
			natFail[f] = true
		}
		if nat.Panicked != "" {
			natFail["no-unexpected-panic"] = true
		}
		delete(engFail, "no-write-to-package-state")
		same := len(engFail) == len(natFail)
		for k := range engFail {
			if !natFail[k] {
				same = false
			}
		}
		var engObs []string
		if len(jr.Observations) == 1 {
			for _, o := range jr.Observations[0] {
				if strings.HasPrefix(o.Name, "log.") {
					continue // the engine's log model notes that logging happened; the native build writes to stderr
				}
				engObs = append(engObs, o.Name+"="+o.Val)
			}
		}
		if len(jr.Observations) > 1 {
			same = false
		}
		if strings.Join(engObs, "|") != strings.Join(nat.Observed, "|") {
			same = false
		}
		if (len(jr.Reached) > 0) != (len(nat.Reached) > 0) {
			same = false
		}
		if !same {
			r.confMismatch++
			r.confNotes = append(r.confNotes, fmt.Sprintf("%s: engine failures %v obs %v reached %v; native failures %v obs %v reached %v panic %q", jr.Job.ID, keysB(engFail), engObs, jr.Reached, nat.Failures, nat.Observed, nat.Reached, nat.Panicked))
		}
	}
	if r.confMismatch > 0 {
		r.incon = append(r.incon, fmt.Sprintf("conformance: %d of %d concrete runs disagree between engine and native build", r.confMismatch, r.confRuns))
	}
}

func keysB(m map[string]bool) []string {
	var out []string
	for k := range m {
		out = append(out, k)
	}
	sort.Strings(out)
	return out
}

func (r *report) finish() int {
	code := 0
	nviol := 0
	knownCount := map[string]int{}
	knownFirst := map[string]*violation{}
	var knownOrder []string
	for _, v := range r.viols {
		if !v.Reproduced {
			continue
		}
		if v.Known != "" {
			if knownCount[v.Known] == 0 {
				knownOrder = append(knownOrder, v.Known)
				knownFirst[v.Known] = v
			}
			knownCount[v.Known]++
			continue
		}
		nviol++
		fmt.Printf("VIOLATION property=%s replay=%s job=%s obligation=%s %s\n", r.pd.ID, v.ReplayPath, v.Job.ID, v.Label, v.Note)
		code = 1
	}
	for _, k := range knownOrder {
		v := knownFirst[k]
		fmt.Printf("KNOWN-FINDING: property=%s %s (%d obligation instances inside the listed region; e.g. job %s, obligation %s, witness=%s)\n", r.pd.ID, k, knownCount[k], v.Job.ID, v.Label, v.ReplayPath)
	}
	for _, c := range r.cross {
		r.incon = append(r.incon, "cross-solver disagreement: "+c)
	}
	for _, v := range r.vacuous {
		r.incon = append(r.incon, "vacuous job (no reachability witness): "+v)
	}
	if len(r.incon) > 0 {
		for i, s := range r.incon {
			if i >= 40 {
				fmt.Printf("INCONCLUSIVE ... and %d more\n", len(r.incon)-i)
				break
			}
			fmt.Printf("INCONCLUSIVE property=%s %s\n", r.pd.ID, s)
		}
		if code == 0 {
			code = 2
		}
	}
	r.writeEvidence(nviol)
	obl := r.counts[sym.ObTrivial] + r.counts[sym.ObDischarged] + r.counts[sym.ObViolated] + r.counts[sym.ObKnown] + r.counts[sym.ObInconclusive]
	fmt.Printf("%s tier=%s jobs=%d paths=%d obligations=%d (solver-discharged %d, closed by simplifier %d, violated %d, known %d, inconclusive %d) queries=%d solver=%.1fs wall=%.1fs exit=%d\n",
		r.pd.ID, r.tier, r.sum.jobs, r.paths, obl, r.counts[sym.ObDischarged], r.counts[sym.ObTrivial], r.counts[sym.ObViolated], r.counts[sym.ObKnown], r.counts[sym.ObInconclusive],
		r.sum.solver.Queries, r.sum.solver.SolverSec, r.wall, code)
	return code
}

func (r *report) writeEvidence(nviol int) {
	obl := r.counts[sym.ObTrivial] + r.counts[sym.ObDischarged] + r.counts[sym.ObViolated] + r.counts[sym.ObKnown] + r.counts[sym.ObInconclusive]
	var known []string
	replayed := 0
	for _, v := range r.viols {
		if v.Reproduced && !v.NoReplay {
			replayed++
		}
		if v.Known != "" && v.Reproduced {
			known = append(known, fmt.Sprintf("%s [%s/%s]", v.Known, v.Job.ID, v.Label))
		}
	}
	var vsamples []interface{}
	for i, v := range r.viols {
		if i >= 4 {
			break
		}
		vsamples = append(vsamples, map[string]interface{}{"job": v.Job.ID, "obligation": v.Label, "known_finding": v.Known, "reproduced_natively": v.Reproduced, "replay": v.ReplayPath, "tags": v.Tags})
	}
	samples := append(r.samples, vsamples...)
	if len(samples) == 0 {
		samples = []interface{}{"no obligations were produced"}
	}
	verName := map[string]string{"z3": "z3 4.8.12", "z3-new": "z3 5.1.0 (z3-new)", "cvc5": "cvc5 1.0.3", "cvc5-int": "cvc5 1.0.3 --solve-bv-as-int=sum"}
	solvers := []string{verName[r.pd.solver()] + " (primary)"}
	for _, f := range r.pd.fallbacks() {
		solvers = append(solvers, verName[f]+" (fallback on unknown)")
	}
	if r.tier == "thorough" && !r.pd.SingleSolver {
		for _, sv := range []string{"cvc5", "z3-new"} {
			if sv != r.pd.solver() {
				solvers = append(solvers, verName[sv]+" (cross-check)")
			}
		}
	}
	cov := map[string]interface{}{
		"states":                            max1(r.paths),
		"transitions":                       max1(r.instrs),
		"traces_validated_against_impl":     r.confRuns + replayed,
		"samples":                           samples,
		"obligations":                       obl,
		"discharged":                        r.counts[sym.ObDischarged] + r.counts[sym.ObTrivial],
		"discharged_by_solver":              r.counts[sym.ObDischarged],
		"closed_by_simplifier":              r.counts[sym.ObTrivial],
		"violated":                          r.counts[sym.ObViolated],
		"known_findings_witnessed":          known,
		"inconclusive":                      len(r.incon),
		"inconclusive_detail":               firstN(r.incon, 20),
		"jobs":                              r.sum.jobs,
		"distinct_obligation_labels":        keys(r.labelSet),
		"symbolic_paths":                    r.paths,
		"ssa_instructions_executed":         r.instrs,
		"forks":                             r.forks,
		"merges":                            r.merges,
		"queries":                           r.sum.solver.Queries,
		"solver_time_s":                     round2(r.sum.solver.SolverSec),
		"slowest_query_s":                   round2(r.slowest),
		"solvers":                           solvers,
		"cross_solver_obligations":          r.crossChecked,
		"cross_solver_disagreements":        len(r.cross),
		"conformance_runs":                  r.confRuns,
		"conformance_mismatches":            r.confMismatch,
		"conformance_notes":                 firstN(r.confNotes, 10),
		"counterexamples_replayed":          replayed,
		"functions_encoded":                 keys(r.sum.functions),
		"stdlib_models_used":                keys(r.sum.models),
		"stdlib_globals_read_uninitialised": keys(r.sum.stdGlobals),
		"bounds":                            r.pd.Bounds,
		"outside_claim":                     r.pd.Outside,
		"exhaustive":                        r.pd.Exhaustive,
		"technique":                         "symbolic execution of go/ssa of /repo (regenerated this run) + SMT (QF_ABV) verdict per obligation",
		"explanation":                       r.pd.Explanation,
		"worker_init_s":                     round2(r.sum.initSec),
	}
	assum := append([]string{}, r.pd.Assumptions...)
	assum = append(assum, keys(r.assumptions)...)
	ev := map[string]interface{}{
		"property_id": r.pd.ID,
		"tier":        r.tier,
		"seed":        r.seed,
		"level":       r.pd.Level,
		"coverage":    cov,
		"assumptions": assum,
		"wall_s":      round2(r.wall),
		"violations":  nviol,
	}
	os.MkdirAll(filepath.Join(verifDir, "evidence"), 0o755)
	b, _ := json.MarshalIndent(ev, "", " ")
	os.WriteFile(filepath.Join(verifDir, "evidence", r.pd.ID+".json"), b, 0o644)
}

func max1(n int) int {
	if n < 1 {
		return 1
	}
	return n
}

func round2(f float64) float64 { return float64(int(f*100+0.5)) / 100 }

func firstN(s []string, n int) []string {
	if len(s) > n {
		return s[:n]
	}
	if s == nil {
		return []string{}
	}
	return s
}

// cmdReplay replays one counterexample file natively and reports whether it reproduces.
func cmdReplay(args []string) int {
	if len(args) < 1 {
		usage()
	}
	b, err := os.ReadFile(args[0])
	if err != nil {
		fmt.Fprintln(os.Stderr, err)
		return 2
	}
	var rf struct {
		Property string  `json:"property"`
		Job      sym.Job `json:"job"`
		Label    string  `json:"label"`
	}
	if err := json.Unmarshal(b, &rf); err != nil {
		fmt.Fprintln(os.Stderr, err)
		return 2
	}
	pd := propByID(rf.Property)
	if pd == nil {
		fmt.Fprintln(os.Stderr, "unknown property in replay file")
		return 2
	}
	work := filepath.Join(verifDir, ".work", fmt.Sprintf("replay-%d", os.Getpid()))
	os.MkdirAll(work, 0o755)
	defer os.RemoveAll(work)
	bin, err := buildReplayer(pd, work)
	if err != nil {
		fmt.Fprintln(os.Stderr, err)
		return 2
	}
	outs, err := runReplayer(bin, "replay", args[0])
	if err != nil || len(outs) != 1 {
		fmt.Fprintln(os.Stderr, "replayer failed:", err)
		return 2
	}
	ro := outs[0]
	fmt.Printf("job=%s obligation=%s failures=%v panicked=%q assume_failed=%v\n", rf.Job.ID, rf.Label, ro.Failures, ro.Panicked, ro.AssumeFailed)
	for _, f := range ro.Failures {
		if f == rf.Label {
			fmt.Printf("VIOLATION property=%s replay=%s (reproduced)\n", rf.Property, args[0])
			return 1
		}
	}
	if rf.Label == "no-unexpected-panic" && ro.Panicked != "" {
		fmt.Printf("VIOLATION property=%s replay=%s (reproduced)\n", rf.Property, args[0])
		return 1
	}
	fmt.Println("not reproduced")
	return 0
}
