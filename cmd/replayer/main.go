// replayer runs harnesses natively: `replayer replay <file>...` feeds solver models,
// `replayer conf <seed> <jobs.json>` runs conformance vectors. One JSON line per run.
package main

import (
	"encoding/json"
	"fmt"
	"os"

	"verif/harness/all"
	"verif/vp"
)

type jobT struct {
	ID   string  `json:"id"`
	Pkg  string  `json:"pkg"`
	Func string  `json:"func"`
	Args []int64 `json:"args"`
	Seed *uint64 `json:"seed"`
}

type out struct {
	File         string   `json:"file"`
	Failures     []string `json:"failures"`
	Reached      []string `json:"reached"`
	Observed     []string `json:"observed"`
	AssumeFailed bool     `json:"assume_failed"`
	Panicked     string   `json:"panicked"`
	Err          string   `json:"err"`
}

func emit(o out) {
	b, _ := json.Marshal(o)
	fmt.Println(string(b))
}

func runOne(key string, j jobT, r *vp.Replay, seed uint64, random bool) {
	o := out{File: key}
	e, ok := all.Registry[j.Pkg+"."+j.Func]
	if !ok {
		o.Err = "harness not registered: " + j.Pkg + "." + j.Func
		emit(o)
		return
	}
	all.ResetState()
	vp.Reset(r, seed, random)
	p := vp.Run(func() { e(j.Args) })
	o.Failures, o.Reached, o.Observed, o.AssumeFailed = vp.Failures, vp.Reached, vp.Observed, vp.AssumeFailed
	if p != nil {
		o.Panicked = fmt.Sprint(p)
	}
	emit(o)
}

func main() {
	if len(os.Args) < 3 {
		fmt.Fprintln(os.Stderr, "usage: replayer replay <file>... | conf <jobs.json>")
		os.Exit(2)
	}
	switch os.Args[1] {
	case "replay":
		for _, f := range os.Args[2:] {
			b, err := os.ReadFile(f)
			if err != nil {
				emit(out{File: f, Err: err.Error()})
				continue
			}
			var rf struct {
				Job jobT `json:"job"`
			}
			if err := json.Unmarshal(b, &rf); err != nil {
				emit(out{File: f, Err: err.Error()})
				continue
			}
			r, err := vp.LoadReplay(f)
			if err != nil {
				emit(out{File: f, Err: err.Error()})
				continue
			}
			runOne(f, rf.Job, r, 0, false)
		}
	case "conf":
		b, err := os.ReadFile(os.Args[2])
		if err != nil {
			fmt.Fprintln(os.Stderr, err)
			os.Exit(2)
		}
		var jobs []jobT
		if err := json.Unmarshal(b, &jobs); err != nil {
			fmt.Fprintln(os.Stderr, err)
			os.Exit(2)
		}
		for _, j := range jobs {
			sd := uint64(0)
			if j.Seed != nil {
				sd = *j.Seed
			}
			runOne(j.ID, j, nil, sd, true)
		}
	}
}
