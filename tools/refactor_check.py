#!/usr/bin/env python3
"""Run the quick checks against a BEHAVIOUR-PRESERVING change (false-alarm test).

usage: refactor_check.py <id> <dir-with-patch.diff> [extra property ids...]

1. In a scratch worktree of /repo: the patch applies, the library builds and the baseline's stable
   tests still pass (a change that breaks them is not behaviour-preserving and is rejected).
2. Against /repo itself: git apply, run the quick check of every property whose anchored files the
   patch touches (plus the extras), undo. Every check must exit 0 without a VIOLATION line.
3. Store the patch and meta.json under /verif/seeded/<id>/ ("kind": "behaviour-preserving").
"""
import json, os, shutil, subprocess, sys, time

ENV = dict(os.environ, GOFLAGS="-mod=mod", GOPROXY="off", GOSUMDB="off", GOTOOLCHAIN="local")

BY_PATH = [
    ("asm/", ["C03", "C06", "C07", "C15", "C16", "C19"]),
    ("xbuf/", ["C15", "C14"]),
    ("emulator/cpu65c816/", ["C01", "C02", "C07", "C08", "C12", "C14"]),
    ("emulator/cpualt/", ["C01", "C02", "C07", "C08", "C12", "C14"]),
    ("emulator/bus/", ["C13", "C11", "C01", "C12"]),
    ("emulator/memory/", ["C13", "C11"]),
    ("emulator/system.go", ["C11", "C12", "C14"]),
    ("mapping/", ["C04", "C05", "C11"]),
    ("rom.go", ["C09", "C10"]),
    ("header.go", ["C09"]),
    ("color15/", ["C17"]),
]


def run(cmd, cwd, timeout=3600):
    p = subprocess.run(cmd, cwd=cwd, env=ENV, shell=isinstance(cmd, str), stdout=subprocess.PIPE, stderr=subprocess.STDOUT, timeout=timeout)
    return p.returncode, p.stdout.decode(errors="replace")


def stable_missing(cwd):
    base = json.load(open('/root/.vp/BASELINE.json'))
    rc, out = run("go test -mod=mod -json -vet=off -count=1 -timeout 25m ./...", cwd)
    res = {}
    for l in out.splitlines():
        try:
            d = json.loads(l)
        except Exception:
            continue
        if d.get('Test') and d.get('Action') in ('pass', 'fail'):
            res[d['Package'] + '::' + d['Test']] = d['Action']
    return [t for t in base['stable_pass'] if res.get(t) != 'pass']


def main():
    rid, src, *extra = sys.argv[1:]
    patch = os.path.join(src, 'patch.diff')
    files = sorted(set(l[6:] for l in open(patch).read().splitlines() if l.startswith('+++ b/')))
    props = []
    for f in files:
        for pre, ps in BY_PATH:
            if f.startswith(pre):
                for p in ps:
                    if p not in props:
                        props.append(p)
    for p in extra:
        if p not in props:
            props.append(p)
    scratch = f"/tmp/refconfirm-{rid}"
    subprocess.run(["git", "-C", "/repo", "worktree", "remove", "--force", scratch], stderr=subprocess.DEVNULL)
    subprocess.check_call(["git", "-C", "/repo", "worktree", "add", "-q", "--detach", scratch, "HEAD"])
    meta = {"seed": rid, "kind": "behaviour-preserving", "patch": "patch.diff", "files": files}
    try:
        rc, outp = run(["git", "apply", patch], scratch)
        if rc != 0:
            print(f"[{rid}] PATCH DOES NOT APPLY: {outp[:300]}")
            return
        rcb, _ = run("go build ./...", scratch)
        missing = stable_missing(scratch)
        meta["confirmation"] = {"builds_with_change": rcb == 0, "baseline_stable_tests_not_passing_with_change": missing[:5]}
        if rcb != 0 or missing:
            print(f"[{rid}] rejected: builds={rcb == 0} stable tests missing={len(missing)}")
            return
    finally:
        subprocess.run(["git", "-C", "/repo", "worktree", "remove", "--force", scratch])
    st = subprocess.run(["git", "-C", "/repo", "status", "--porcelain"], stdout=subprocess.PIPE).stdout.decode().strip()
    if st:
        print("refusing: /repo is not clean")
        sys.exit(2)
    subprocess.check_call(["git", "-C", "/repo", "apply", patch])
    results = {}
    try:
        for p in props:
            t0 = time.time()
            rc, out = run(["./bin/vcheck", "run", p, "--tier", "quick"], "/verif")
            lines = out.splitlines()
            viol = [l for l in lines if l.startswith("VIOLATION")]
            inc = [l for l in lines if l.startswith("INCONCLUSIVE")]
            note = [l for l in lines if l.startswith("NOTE")]
            results[p] = {"exit": rc, "violation_lines": len(viol), "inconclusive_lines": len(inc), "first_alarm": (viol + inc + [""])[0][:400], "notes": [n[:300] for n in note[:2]], "wall_s": round(time.time() - t0, 1)}
            print(f"[{rid}] check {p}: exit={rc} violations={len(viol)} inconclusive={len(inc)} {(viol + inc + [''])[0][:260]}")
    finally:
        subprocess.check_call(["git", "-C", "/repo", "checkout", "--", "."])
    meta["checks_run_with_change_applied"] = results
    meta["false_alarms"] = [p for p, r in results.items() if r["exit"] != 0]
    dst = f"/verif/seeded/{rid}"
    os.makedirs(dst, exist_ok=True)
    shutil.copy(patch, os.path.join(dst, "patch.diff"))
    if os.path.exists(os.path.join(src, "notes.md")):
        shutil.copy(os.path.join(src, "notes.md"), os.path.join(dst, "notes.md"))
    json.dump(meta, open(os.path.join(dst, "meta.json"), "w"), indent=1)


if __name__ == "__main__":
    main()
