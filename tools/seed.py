#!/usr/bin/env python3
"""Confirm a seeded change and run checks against it.

usage: seed.py <seed-id> <dir-with-patch.diff-and-demo> <demo file name in that dir> <path for demo inside repo> <property> [more properties to run]

1. In a scratch worktree of /repo (outside /repo and /verif): the demo passes without the patch, fails with it,
   the library builds and the baseline's stable tests still pass with the patch.
2. Against /repo itself: git apply the patch, run the quick check of each listed property, undo the patch.
3. Store patch, demo and meta.json under /verif/seeded/<seed-id>/.
"""
import json, os, shutil, subprocess, sys, time

ENV = dict(os.environ, GOFLAGS="-mod=mod", GOPROXY="off", GOSUMDB="off", GOTOOLCHAIN="local")

def run(cmd, cwd, timeout=1800):
    p = subprocess.run(cmd, cwd=cwd, env=ENV, shell=isinstance(cmd, str), stdout=subprocess.PIPE, stderr=subprocess.STDOUT, timeout=timeout)
    return p.returncode, p.stdout.decode(errors="replace")

def stable_tests_pass(cwd):
    base = json.load(open('/root/.vp/BASELINE.json'))
    rc, out = run("go test -mod=mod -json -vet=off -count=1 -timeout 25m ./...", cwd)
    res = {}
    for l in out.splitlines():
        try:
            d = json.loads(l)
        except Exception:
            continue
        if d.get('Test') and d.get('Action') in ('pass', 'fail'):
            res[d['Package'] + '::' + d['Test']] = d['Action']
    missing = [t for t in base['stable_pass'] if res.get(t) != 'pass']
    return missing

def main():
    sid, src, demo, demo_dst, *props = sys.argv[1:]
    patch = os.path.join(src, 'patch.diff')
    scratch = f"/tmp/seedconfirm-{sid}"
    subprocess.run(["git", "-C", "/repo", "worktree", "remove", "--force", scratch], stderr=subprocess.DEVNULL)
    subprocess.check_call(["git", "-C", "/repo", "worktree", "add", "-q", "--detach", scratch, "HEAD"])
    meta = {"seed": sid, "breaks_property": props[0], "patch": "patch.diff", "demonstration": os.path.basename(demo), "demonstration_path_in_repo": demo_dst}
    try:
        dst = os.path.join(scratch, demo_dst)
        shutil.copy(os.path.join(src, demo), dst)
        pkgdir = "./" + os.path.dirname(demo_dst) if os.path.dirname(demo_dst) else "."
        rc0, out0 = run(f"go test -count=1 -vet=off -run '(?i)demo|TestZZ' {pkgdir}", scratch)
        rc, outp = run(["git", "apply", patch], scratch)
        if rc != 0:
            print("PATCH DOES NOT APPLY:", outp); meta["confirmed"] = False; return meta
        rcb, outb = run("go build ./...", scratch)
        rc1, out1 = run(f"go test -count=1 -vet=off -run '(?i)demo|TestZZ' {pkgdir}", scratch)
        os.remove(dst)
        missing = stable_tests_pass(scratch)
        # a failure of the package's own always-failing tests must not be mistaken for the demo failing
        demo_fail_with = rc1 != 0 and '--- FAIL' in out1
        meta["confirmation"] = {"demo_without_change_exit": rc0, "demo_with_change_exit": rc1, "builds_with_change": rcb == 0,
                                "baseline_stable_tests_not_passing_with_change": missing[:5], "ran": [f"go test -count=1 -vet=off -run '(?i)demo|TestZZ' {pkgdir} (scratch worktree, without and with patch)", "go build ./...", "baseline: go test -mod=mod -json -vet=off -count=1 ./... compared with BASELINE.json stable_pass"]}
        meta["confirmed"] = rc0 == 0 and 'no tests to run' not in out0 and demo_fail_with and rcb == 0 and not missing
        print(f"[{sid}] demo without patch exit={rc0}, with patch exit={rc1}, builds={rcb==0}, stable tests missing={len(missing)} -> confirmed={meta['confirmed']}")
        if not meta["confirmed"]:
            print(out0[-600:]); print(out1[-600:])
    finally:
        subprocess.run(["git", "-C", "/repo", "worktree", "remove", "--force", scratch])
    # run the checks against /repo with the patch applied
    st = subprocess.run(["git", "-C", "/repo", "status", "--porcelain"], stdout=subprocess.PIPE).stdout.decode().strip()
    if st:
        print("refusing: /repo is not clean"); sys.exit(2)
    subprocess.check_call(["git", "-C", "/repo", "apply", patch])
    results = {}
    try:
        for p in props:
            t0 = time.time()
            rc, out = run(["./bin/vcheck", "run", p, "--tier", "quick"], "/verif", timeout=3600)
            viol = [l for l in out.splitlines() if l.startswith("VIOLATION")]
            inc = [l for l in out.splitlines() if l.startswith("INCONCLUSIVE")]
            obl = sorted(set(l.split("obligation=")[1].split()[0] for l in viol if "obligation=" in l))
            results[p] = {"exit": rc, "violation_lines": len(viol), "inconclusive_lines": len(inc), "violated_obligations": obl[:12], "first_violation": viol[0][:300] if viol else "", "wall_s": round(time.time() - t0, 1)}
            print(f"[{sid}] check {p}: exit={rc} violations={len(viol)} inconclusive={len(inc)} {obl[:6]}")
            if rc != 1 and inc:
                print("   ", inc[0][:300])
    finally:
        subprocess.check_call(["git", "-C", "/repo", "checkout", "--", "."])
    meta["checks_run_with_change_applied"] = results
    meta["detected_by"] = [p for p, r in results.items() if r["exit"] == 1]
    out = f"/verif/seeded/{sid}"
    os.makedirs(out, exist_ok=True)
    shutil.copy(patch, os.path.join(out, "patch.diff"))
    shutil.copy(os.path.join(src, demo), os.path.join(out, os.path.basename(demo)))
    notes = os.path.join(src, "notes.md")
    if os.path.exists(notes):
        meta["needs_to_manifest"] = open(notes).read()[:1500]
    json.dump(meta, open(os.path.join(out, "meta.json"), "w"), indent=1)
    return meta

if __name__ == "__main__":
    main()
