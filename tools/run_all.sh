#!/bin/sh
# Runs every registered quick (or $1=thorough) check sequentially and prints one summary line each.
tier=${1:-quick}
cd /verif
for id in $(python3 -c "import json;print(' '.join(c['property_id'] for c in json.load(open('MANIFEST.json'))['checks']))"); do
  ./bin/vcheck run $id --tier $tier > /tmp/verif-run-$id.log 2>&1
  echo "$id exit=$? $(tail -1 /tmp/verif-run-$id.log | cut -c1-200)"
done
