#!/usr/bin/env python3
"""Regenerates /verif/MANIFEST.json from the table below (keeps the manifest valid and in one place)."""
import json, sys
TECH = "symbolic execution of the go/ssa form of /repo (own SSA->SMT-LIB2 executor, regenerated from the working tree each run) + SMT verdict (z3/cvc5) per assertion over all values inside the stated bounds; counterexamples replayed natively"
TRUST = "Trusted base: the gosym executor, its term simplifier and stdlib models (validated every run by concrete conformance vectors against the native build and by native replay of every solver model), and the SMT solvers (z3 5.1.0/4.8.12, cvc5 1.0.3; cross-checked in the thorough tier). "
CHECKS = {
 "C01": ("Per opcode x width setting x interpreter, one solver-decided comparison of the real Step against an independent 65C816 reference over an arbitrary native-mode register state and 16 MiB memory; sequences by induction on the flag-byte invariant, plus two- and three-instruction jobs (block moves in every combination, save/restore brackets, every opcode twice, save-disturb-restore and use-overwrite-use triples) for state an interpreter keeps between steps.", TRUST + "Oracle: spec/w65816 (DESIGN Appendix A). Decimal-mode ADC/SBC is a listed known finding (region D=1).", "§6 C01"),
 "C02": ("Both real Step functions on one symbolic state and memory; all registers, flags, counters, return values, failure status and memory compared; any number of steps by induction, plus two- and three-instruction lockstep jobs for state kept between steps.", TRUST, "§6 C02"),
 "C03": ("One call of every instruction-emitting method (enumerated from go/types each run) with all operand values and tracked flags symbolic; expected bytes from the 65816 opcode matrix and the method NAME; solver/simplifier verdict per clause.", TRUST + "Oracle: spec/w65816 opcode matrix + the naming convention in internal/asmgen.", "§6 C03"),
 "C04": ("Every assertion is an SMT query over one fully symbolic 24-bit address per mapper; unsat = holds for all 2^24 addresses (loop-free code).", TRUST, "§6 C04"),
 "C05": ("Implementation vs. declarative region table for an arbitrary 24-bit bus/pak address; each clause one bit-vector query over the whole domain.", TRUST + "Oracle: spec/cartmap, the transcription of the library's documented region tables (DESIGN Appendix B).", "§6 C05"),
 "C06": ("Real Finalize on programs built through the public API (templates covering forward/backward/multiple/missing/duplicate references and distances around -128/+127), symbolic base and data, all map iteration orders; the harness' own bookkeeping is the oracle.", TRUST + "Bounded: <= 2 labels, <= 3 references per label, <= 7 calls.", "§6 C06"),
 "C07": ("Inductive step: one emitter call followed by one real CPU Step from a state tied to the emitter only by the invariant (same PC, same widths); operands, flags and the rest of the CPU symbolic; both interpreters.", TRUST, "§6 C07"),
 "C08": ("Every implicit Go runtime check inside Step (index, slice, nil, type assertion, explicit panic) is a solver-decided fork from an arbitrary state; passes only if no failure path is feasible.", TRUST + "Backends of exactly 2^24 bytes make 'no failure' imply 'every access below 2^24'.", "§6 C08"),
 "C09": ("Real NewROM/ReadHeader/WriteHeader (reflection-driven walker executed for real, reflect/encoding-binary by documented contract) on a fully symbolic image: round trip, 80-byte serialisation, every field at its documented address, version rule.", TRUST + "Oracle: SNES header layout (DESIGN Appendix C). Image sizes 32 KiB..4 MiB enumerated.", "§6 C09"),
 "C10": ("Real BusReader/BusWriter and bytes.Reader on a symbolic image with a fully symbolic bus address and short read/write sequences; counts, errors, delivered bytes and the whole image compared with the contract applied to the harness' copy.", TRUST + "The unreachable last byte of each bank is a listed open finding (pinned by a baseline test).", "§6 C10"),
 "C11": ("The real CreateEmulator executed by the engine; one read and one write at every bus address (per bank, offset symbolic) with symbolic ROM/WRAM/SRAM contents; the array reached is observed extensionally and compared with lorom.BusAddressToPak.", TRUST, "§6 C11"),
 "C12": ("Step lemma and callback obligations per opcode over an arbitrary state; the real RunUntil loop run symbolically over short programs with symbolic target and budget.", TRUST + "RunUntil for programs beyond the unrolling bound rests on the Step lemma (cycles >= 1), argued not solver-checked.", "§6 C12"),
 "C18": ("Decided through the sufficient condition the statement itself gives (no mutable state outside caller-owned objects): the engine's write-set monitor checks every store on every feasible path of the other properties' jobs against the objects reachable from package-level variables, and a syntactic scan covers every repository function. Thread interleavings are not explored.", TRUST + "Go memory model: goroutines touching disjoint memory cannot influence each other.", "§6 C18"),
 "C19": ("Every instruction method and data blocks at capacities from ample down to 3 bytes short, refusal observed around the real call; dry-run twin compared after every call of short sequences.", TRUST + "Capacities 0..4 (thorough 0..6).", "§6 C19"),
 "C13": ("Probe memories behind the real Bus; routing after up to three Attach calls over overlapping/adjacent/nested ranges checked at a symbolic address; misaligned Attach with symbolic bounds; EaDump for every start/end alignment over up to 4-5 segments.", TRUST + "Bounded: 8 candidate ranges in a 512-byte window, <= 3 attaches.", "§6 C13"),
 "C14": ("One trace line per opcode x width setting x interpreter from an arbitrary state, parsed without branching on symbolic characters and compared with the pre-state and the opcode matrix; the disassembler call and RunUntil with/without Logger leave CPU and memory identical.", TRUST + "Rendering syntax is not imposed; required content only.", "§6 C14"),
 "C15": ("Real WriteHexTo/WriteTextTo on short call sequences with symbolic operands, data and base; listings parsed arithmetically and compared with the harness' own record of what was issued.", TRUST + "Bounded: sequences of <= 2 (thorough 3) calls.", "§6 C15"),
 "C16": ("Differential run of the real code: the same call sequence fed directly and through Clone+Append, every split point; getters, text listing and Finalize outcome compared; operands, flags and base symbolic.", TRUST + "Bounded: sequences of <= 3 (thorough 4) calls, two labels.", "§6 C16"),
 "C17": ("All colour/multiplicand/divisor values symbolic; per-channel closed form in 32 bits as reference; monotonicity queries decided by cvc5 --solve-bv-as-int where bit-blasting times out.", TRUST, "§6 C17"),
}
NA = {}
def main():
    checks = []
    for pid in sorted(CHECKS):
        text, note, ref = CHECKS[pid]
        checks.append({
            "property_id": pid,
            "quick_cmd": f"./bin/vcheck run {pid} --tier quick",
            "thorough_cmd": f"./bin/vcheck run {pid} --tier thorough",
            "evidence_file": f"/verif/evidence/{pid}.json",
            "replay_cmd_template": "./bin/vcheck replay {path}",
            "engine": "gosym",
            "level_claimed": {"category": "other" if pid == "C18" else "model_checking", "text": text, "design_ref": "DESIGN.md " + ref},
            "level_note": note,
            "technique": TECH,
        })
    na = []
    for n in range(1, 20):
        pid = f"C{n:02d}"
        if pid not in CHECKS:
            na.append({"property_id": pid, "reason": NA.get(pid, "check not built yet in this session (work in progress; plan in DESIGN.md §6)")})
    m = {
        "version": 1,
        "setup_cmd": "cd /verif && export GOFLAGS=-mod=mod GOPROXY=off GOSUMDB=off GOTOOLCHAIN=local && go build -o bin/vcheck ./cmd/vcheck",
        "hooks": {"guard": "verif", "enable": "no source hooks: harnesses live in /verif (module replace => /repo) or are injected as go/packages overlays; /repo is only changed by 'fix:' commits",
                  "baseline_off_cmd": "cd /repo && go test -mod=mod -json -vet=off -count=1 -timeout 25m ./...", "source_commits": [], "add_only": True},
        "engines": [{"name": "gosym", "path": "/verif/internal/sym", "serves_properties": sorted(CHECKS), "kind_free_text": "symbolic executor for go/ssa with SMT-LIB2 back ends (z3 -in, cvc5 --incremental)"}],
        "checks": checks,
        "notes": "exit 0 = every obligation discharged (KNOWN-FINDING lines allowed); 1 = natively reproduced counterexample (VIOLATION line); 2 = inconclusive (timeout/unknown/unsupported/vacuous/engine-mismatch), never reported as success",
        "not_applicable": na,
    }
    json.dump(m, open('/verif/MANIFEST.json', 'w'), indent=1)
    print("checks:", len(checks), "not_applicable:", len(na))
main()
