#!/bin/sh
# Runs the repository's baseline (guard off: there are no source hooks) and compares with BASELINE.json.
cd /repo && go test -mod=mod -json -vet=off -count=1 -timeout 25m ./... 2>/dev/null > /tmp/verif-base.json
python3 - <<'PY'
import json,sys
base=json.load(open('/root/.vp/BASELINE.json'))
res={}
for l in open('/tmp/verif-base.json'):
    try: d=json.loads(l)
    except Exception: continue
    if d.get('Test') and d.get('Action') in('pass','fail'):
        res[d['Package']+'::'+d['Test']]=d['Action']
missing=[t for t in base['stable_pass'] if res.get(t)!='pass']
print('baseline stable tests:',len(base['stable_pass']),'not passing now:',len(missing))
for t in missing[:20]: print('  ',t)
sys.exit(1 if missing else 0)
PY
rc=$?; rm -f /tmp/verif-base.json; exit $rc
