#!/usr/bin/env python3
"""Prints the markdown table of seeded changes (from /verif/seeded/*/meta.json) for DESIGN.md §14."""
import json, glob, os
rows = []
for f in sorted(glob.glob('/verif/seeded/*/meta.json')):
    m = json.load(open(f))
    if m.get('kind') == 'behaviour-preserving':
        continue
    patch = open(os.path.join(os.path.dirname(f), 'patch.diff')).read()
    files = sorted(set(l[6:] for l in patch.splitlines() if l.startswith('+++ b/')))
    checks = m.get('checks_run_with_change_applied', {})
    det = []
    for p, r in checks.items():
        if r['exit'] == 1:
            det.append(f"{p} ({', '.join(r['violated_obligations'][:3])})")
        else:
            det.append(f"{p}: not detected (exit {r['exit']})")
    rows.append((m['seed'], m['breaks_property'], ', '.join(files), 'yes' if m.get('confirmed') else 'NO', '; '.join(det)))
import sys
lines = ["| seed | property | file(s) changed | demo confirmed | quick checks run with the change applied |", "|---|---|---|---|---|"]
for r in rows:
    lines.append("| " + " | ".join(r) + " |")
# behaviour-preserving changes (false-alarm tests)
rlines = ["| change | file(s) | quick checks run with the change applied (all must exit 0) | alarms |", "|---|---|---|---|"]
for f in sorted(glob.glob('/verif/seeded/*/meta.json')):
    m = json.load(open(f))
    if m.get('kind') != 'behaviour-preserving' or 'checks_run_with_change_applied' not in m:
        continue
    cs = m['checks_run_with_change_applied']
    rlines.append("| %s | %s | %s | %s |" % (m['seed'], ', '.join(m['files']), ' '.join(cs.keys()), ', '.join("%s exit %d" % (p, cs[p]['exit']) for p in m.get('false_alarms', [])) or 'none'))
if '--update-design' in sys.argv:
    d = open('/verif/DESIGN.md').read()
    b, e = '<!-- SEEDTABLE:BEGIN -->', '<!-- SEEDTABLE:END -->'
    i, j = d.index(b) + len(b), d.index(e)
    d = d[:i] + "\n" + "\n".join(lines) + "\n" + d[j:]
    b, e = '<!-- REFTABLE:BEGIN -->', '<!-- REFTABLE:END -->'
    if b in d:
        i, j = d.index(b) + len(b), d.index(e)
        d = d[:i] + "\n" + "\n".join(rlines) + "\n" + d[j:]
    open('/verif/DESIGN.md', 'w').write(d)
else:
    print("\n".join(lines))
    print("\n".join(rlines))
