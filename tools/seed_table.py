#!/usr/bin/env python3
"""Prints the markdown table of seeded changes (from /verif/seeded/*/meta.json) for DESIGN.md §14."""
import json, glob, os
rows = []
for f in sorted(glob.glob('/verif/seeded/*/meta.json')):
    m = json.load(open(f))
    patch = open(os.path.join(os.path.dirname(f), 'patch.diff')).read()
    files = sorted(set(l[6:] for l in patch.splitlines() if l.startswith('+++ b/')))
    checks = m.get('checks_run_with_change_applied', {})
    det = []
    for p, r in checks.items():
        if r['exit'] == 1:
            det.append(f"{p} ({', '.join(r['violated_obligations'][:3])})")
        else:
            det.append(f"{p}: not detected (exit {r['exit']})")
    rows.append((m['seed'], m['breaks_property'], ', '.join(files), 'yes' if m.get('confirmed') else 'NO', '; '.join(det)))
import sys
lines = ["| seed | property | file(s) changed | demo confirmed | quick checks run with the change applied |", "|---|---|---|---|---|"]
for r in rows:
    lines.append("| " + " | ".join(r) + " |")
if '--update-design' in sys.argv:
    d = open('/verif/DESIGN.md').read()
    b, e = '<!-- SEEDTABLE:BEGIN -->', '<!-- SEEDTABLE:END -->'
    i, j = d.index(b) + len(b), d.index(e)
    open('/verif/DESIGN.md', 'w').write(d[:i] + "\n" + "\n".join(lines) + "\n" + d[j:])
else:
    print("\n".join(lines))
