package term

import (
	"fmt"
	"sort"
	"strings"
)

func sortOf(t *Term) string {
	if t.Arr {
		return fmt.Sprintf("(Array (_ BitVec %d) (_ BitVec %d))", IdxW, t.W)
	}
	if t.W == 0 {
		return "Bool"
	}
	return fmt.Sprintf("(_ BitVec %d)", t.W)
}

// SortOf returns the SMT-LIB sort of a term.
func SortOf(t *Term) string { return sortOf(t) }

func smtName(n string) string {
	ok := true
	for _, c := range n {
		if !(c >= 'a' && c <= 'z' || c >= 'A' && c <= 'Z' || c >= '0' && c <= '9' || c == '_' || c == '.') {
			ok = false
			break
		}
	}
	if ok && n != "" && !(n[0] >= '0' && n[0] <= '9') {
		return n
	}
	return "|" + strings.ReplaceAll(n, "|", "_") + "|"
}

func bvConst(w int, v uint64) string {
	if w%4 == 0 {
		return fmt.Sprintf("#x%0*x", w/4, v)
	}
	return fmt.Sprintf("#b%0*b", w, v)
}

// Printer renders terms as SMT-LIB2 with sharing (define-fun per shared node).
type Printer struct {
	names map[int]string // term id -> name of define-fun or inline text
	Vars  map[string]*Term
	defs  []string
	n     int
	pfx   string
}

func NewPrinter(prefix string) *Printer {
	return &Printer{names: map[int]string{}, Vars: map[string]*Term{}, pfx: prefix}
}

// Defs returns the define-fun lines accumulated so far (in dependency order) and clears them.
func (p *Printer) Defs() []string {
	d := p.defs
	p.defs = nil
	return d
}

// Ref returns an expression (a name) denoting t; definitions are appended to p.defs.
func (p *Printer) Ref(t *Term) string {
	if s, ok := p.names[t.ID]; ok {
		return s
	}
	// iterative post-order to avoid deep recursion
	type frame struct {
		t *Term
		i int
	}
	stack := []frame{{t, 0}}
	for len(stack) > 0 {
		f := &stack[len(stack)-1]
		if _, ok := p.names[f.t.ID]; ok {
			stack = stack[:len(stack)-1]
			continue
		}
		if f.i < len(f.t.Args) {
			a := f.t.Args[f.i]
			f.i++
			if _, ok := p.names[a.ID]; !ok {
				stack = append(stack, frame{a, 0})
			}
			continue
		}
		p.emit(f.t)
		stack = stack[:len(stack)-1]
	}
	return p.names[t.ID]
}

func (p *Printer) emit(t *Term) {
	var s string
	arg := func(i int) string { return p.names[t.Args[i].ID] }
	switch t.K {
	case KConst:
		if t.W == 0 {
			if t.Val != 0 {
				s = "true"
			} else {
				s = "false"
			}
		} else {
			s = bvConst(t.W, t.Val)
		}
		p.names[t.ID] = s
		return
	case KVar:
		s = VarSMTName(t)
		p.Vars[s] = t
		p.names[t.ID] = s
		return
	case KExtract:
		s = fmt.Sprintf("((_ extract %d %d) %s)", t.Hi(), t.Lo(), arg(0))
	case KSExt:
		s = fmt.Sprintf("((_ sign_extend %d) %s)", t.W-t.Args[0].W, arg(0))
	case KConstArr:
		s = fmt.Sprintf("((as const %s) %s)", sortOf(t), arg(0))
	case KConcat:
		// SMT-LIB concat is binary
		s = arg(0)
		for i := 1; i < len(t.Args); i++ {
			s = fmt.Sprintf("(concat %s %s)", s, arg(i))
		}
	default:
		var sb strings.Builder
		sb.WriteString("(")
		sb.WriteString(kindNames[t.K])
		for i := range t.Args {
			sb.WriteString(" ")
			sb.WriteString(arg(i))
		}
		sb.WriteString(")")
		s = sb.String()
	}
	p.n++
	name := fmt.Sprintf("%s%d", p.pfx, p.n)
	p.defs = append(p.defs, fmt.Sprintf("(define-fun %s () %s %s)", name, sortOf(t), s))
	p.names[t.ID] = name
}

// VarSMTName is the SMT-LIB symbol of a variable: the name plus its sort, so that jobs sharing
// one solver process may reuse a name at a different width.
func VarSMTName(t *Term) string {
	suffix := fmt.Sprintf("#%d", t.W)
	if t.Arr {
		suffix = fmt.Sprintf("#arr%d", t.W)
	}
	return smtName(t.Name + suffix)
}

// SortedVars lists the variables seen by the printer.
func (p *Printer) SortedVars() []*Term {
	var vs []*Term
	for _, v := range p.Vars {
		vs = append(vs, v)
	}
	sort.Slice(vs, func(i, j int) bool { return vs[i].Name < vs[j].Name })
	return vs
}

// CollectSelects returns, for every array variable, the index terms it is selected/stored at
// anywhere inside the given roots (used to extract sparse memory models).
func CollectSelects(roots []*Term) map[*Term][]*Term {
	seen := map[int]bool{}
	out := map[*Term][]*Term{}
	dedup := map[[2]int]bool{}
	baseOf := func(a *Term) []*Term {
		// array variables reachable through store/ite chains
		var bs []*Term
		var walk func(x *Term)
		vis := map[int]bool{}
		walk = func(x *Term) {
			if vis[x.ID] {
				return
			}
			vis[x.ID] = true
			switch x.K {
			case KVar:
				bs = append(bs, x)
			case KStore:
				walk(x.Args[0])
			case KIte:
				walk(x.Args[1])
				walk(x.Args[2])
			}
		}
		walk(a)
		return bs
	}
	var stack []*Term
	stack = append(stack, roots...)
	for len(stack) > 0 {
		t := stack[len(stack)-1]
		stack = stack[:len(stack)-1]
		if seen[t.ID] {
			continue
		}
		seen[t.ID] = true
		if t.K == KSelect || t.K == KStore {
			for _, b := range baseOf(t.Args[0]) {
				k := [2]int{b.ID, t.Args[1].ID}
				if !dedup[k] {
					dedup[k] = true
					out[b] = append(out[b], t.Args[1])
				}
			}
		}
		stack = append(stack, t.Args...)
	}
	return out
}

// Vars returns all variables below the roots.
func Vars(roots []*Term) []*Term {
	seen := map[int]bool{}
	var out []*Term
	stack := append([]*Term{}, roots...)
	for len(stack) > 0 {
		t := stack[len(stack)-1]
		stack = stack[:len(stack)-1]
		if seen[t.ID] {
			continue
		}
		seen[t.ID] = true
		if t.K == KVar {
			out = append(out, t)
		}
		stack = append(stack, t.Args...)
	}
	sort.Slice(out, func(i, j int) bool { return out[i].Name < out[j].Name })
	return out
}

// Size returns the number of distinct nodes below the roots.
func Size(roots ...*Term) int {
	seen := map[int]bool{}
	stack := append([]*Term{}, roots...)
	for len(stack) > 0 {
		t := stack[len(stack)-1]
		stack = stack[:len(stack)-1]
		if seen[t.ID] {
			continue
		}
		seen[t.ID] = true
		stack = append(stack, t.Args...)
	}
	return len(seen)
}
