package term

import "fmt"

// ArrVal is a concrete array: default value plus sparse overrides.
type ArrVal struct {
	Def uint64
	M   map[uint64]uint64
}

func (a *ArrVal) get(i uint64) uint64 {
	if v, ok := a.M[i]; ok {
		return v
	}
	return a.Def
}

// Model assigns concrete values to variables.
type Model struct {
	Scalars map[string]uint64
	Arrays  map[string]*ArrVal
}

func NewModel() *Model {
	return &Model{Scalars: map[string]uint64{}, Arrays: map[string]*ArrVal{}}
}

type evalRes struct {
	v uint64
	a *ArrVal
}

// Eval computes the concrete value of t under m (missing variables are 0).
func Eval(t *Term, m *Model) (uint64, *ArrVal) {
	memo := map[int]evalRes{}
	r := eval(t, m, memo)
	return r.v, r.a
}

func b2u(b bool) uint64 {
	if b {
		return 1
	}
	return 0
}

func eval(t *Term, m *Model, memo map[int]evalRes) evalRes {
	if r, ok := memo[t.ID]; ok {
		return r
	}
	var r evalRes
	ev := func(i int) uint64 { return eval(t.Args[i], m, memo).v }
	switch t.K {
	case KConst:
		r.v = t.Val
	case KVar:
		if t.Arr {
			a := m.Arrays[t.Name]
			if a == nil {
				a = &ArrVal{M: map[uint64]uint64{}}
			}
			r.a = a
		} else {
			r.v = m.Scalars[t.Name] & maskOrBool(t.W)
		}
	case KNot:
		r.v = 1 - ev(0)
	case KAnd:
		r.v = 1
		for i := range t.Args {
			if ev(i) == 0 {
				r.v = 0
				break
			}
		}
	case KOr:
		r.v = 0
		for i := range t.Args {
			if ev(i) != 0 {
				r.v = 1
				break
			}
		}
	case KIte:
		if ev(0) != 0 {
			r = eval(t.Args[1], m, memo)
		} else {
			r = eval(t.Args[2], m, memo)
		}
	case KEq:
		if t.Args[0].Arr {
			panic("term.Eval: array equality not supported")
		}
		r.v = b2u(ev(0) == ev(1))
	case KUlt:
		r.v = b2u(ev(0) < ev(1))
	case KUle:
		r.v = b2u(ev(0) <= ev(1))
	case KSlt:
		w := t.Args[0].W
		r.v = b2u(sx(ev(0), w) < sx(ev(1), w))
	case KSle:
		w := t.Args[0].W
		r.v = b2u(sx(ev(0), w) <= sx(ev(1), w))
	case KAdd:
		r.v = (ev(0) + ev(1)) & mask(t.W)
	case KSub:
		r.v = (ev(0) - ev(1)) & mask(t.W)
	case KMul:
		r.v = (ev(0) * ev(1)) & mask(t.W)
	case KUDiv:
		d := ev(1)
		if d == 0 {
			r.v = mask(t.W)
		} else {
			r.v = ev(0) / d
		}
	case KURem:
		d := ev(1)
		if d == 0 {
			r.v = ev(0)
		} else {
			r.v = ev(0) % d
		}
	case KSDiv:
		x, y := sx(ev(0), t.W), sx(ev(1), t.W)
		if y == 0 {
			if x < 0 {
				r.v = 1
			} else {
				r.v = mask(t.W)
			}
		} else if y == -1 {
			r.v = uint64(-x) & mask(t.W)
		} else {
			r.v = uint64(x/y) & mask(t.W)
		}
	case KSRem:
		x, y := sx(ev(0), t.W), sx(ev(1), t.W)
		if y == 0 {
			r.v = uint64(x) & mask(t.W)
		} else if y == -1 {
			r.v = 0
		} else {
			r.v = uint64(x%y) & mask(t.W)
		}
	case KBAnd:
		r.v = ev(0) & ev(1)
	case KBOr:
		r.v = ev(0) | ev(1)
	case KBXor:
		r.v = ev(0) ^ ev(1)
	case KBNot:
		r.v = ^ev(0) & mask(t.W)
	case KNeg:
		r.v = -ev(0) & mask(t.W)
	case KShl:
		n := ev(1)
		if n >= uint64(t.W) {
			r.v = 0
		} else {
			r.v = (ev(0) << n) & mask(t.W)
		}
	case KLShr:
		n := ev(1)
		if n >= uint64(t.W) {
			r.v = 0
		} else {
			r.v = ev(0) >> n
		}
	case KAShr:
		n := ev(1)
		if n >= uint64(t.W) {
			n = uint64(t.W - 1)
		}
		r.v = uint64(sx(ev(0), t.W)>>n) & mask(t.W)
	case KConcat:
		var v uint64
		for i, p := range t.Args {
			v = v<<uint(p.W) | ev(i)
		}
		r.v = v
	case KExtract:
		r.v = (ev(0) >> uint(t.Lo())) & mask(t.W)
	case KSExt:
		r.v = uint64(sx(ev(0), t.Args[0].W)) & mask(t.W)
	case KSelect:
		a := eval(t.Args[0], m, memo).a
		r.v = a.get(ev(1))
	case KStore:
		a := eval(t.Args[0], m, memo).a
		n := &ArrVal{Def: a.Def, M: make(map[uint64]uint64, len(a.M)+1)}
		for k, v := range a.M {
			n.M[k] = v
		}
		n.M[ev(1)] = ev(2)
		r.a = n
	case KConstArr:
		r.a = &ArrVal{Def: ev(0), M: map[uint64]uint64{}}
	default:
		panic(fmt.Sprintf("term.Eval: kind %d", t.K))
	}
	memo[t.ID] = r
	return r
}

func maskOrBool(w int) uint64 {
	if w == 0 {
		return 1
	}
	return mask(w)
}
