// Package term implements hash-consed SMT terms (Booleans, fixed-width
// bit-vectors up to 64 bits, arrays BV32->BVw) with a local simplifier.
// It is single-threaded by design: one engine process = one term table.
package term

import (
	"fmt"
	"math/bits"
	"sort"
	"strconv"
	"strings"
)

type Kind uint8

const (
	KConst Kind = iota // BV constant (W>0) or Bool constant (W==0), value in Val
	KVar
	KNot
	KAnd // n-ary bool
	KOr  // n-ary bool
	KIte
	KEq
	KUlt
	KUle
	KSlt
	KSle
	KAdd
	KSub
	KMul
	KUDiv
	KURem
	KSDiv
	KSRem
	KBAnd
	KBOr
	KBXor
	KBNot
	KNeg
	KShl
	KLShr
	KAShr
	KConcat  // n-ary, Args high..low
	KExtract // Val = hi<<8 | lo
	KSExt
	KSelect
	KStore
	KConstArr
)

var kindNames = [...]string{"const", "var", "not", "and", "or", "ite", "=", "bvult", "bvule", "bvslt", "bvsle",
	"bvadd", "bvsub", "bvmul", "bvudiv", "bvurem", "bvsdiv", "bvsrem", "bvand", "bvor", "bvxor", "bvnot", "bvneg",
	"bvshl", "bvlshr", "bvashr", "concat", "extract", "sext", "select", "store", "constarr"}

// Term is immutable once interned. Sort: Arr => array BV32 -> BV(W); else W==0 => Bool; else BV(W).
type Term struct {
	K    Kind
	W    int  // bit width (element width for arrays); 0 for Bool
	Arr  bool // array sort
	Args []*Term
	Val  uint64
	Name string
	ID   int
}

const IdxW = 32 // index width of all arrays

type key struct {
	k   Kind
	w   int32
	arr bool
	n   int32
	val uint64
	a0  int
	a1  int
	a2  int
}

var (
	table     = map[key]*Term{}
	nameTable = map[string]*Term{} // variables and wide n-ary nodes, keyed by a string
	nextID    = 1
	True      *Term
	False     *Term
)

func init() {
	True = intern(&Term{K: KConst, W: 0, Val: 1})
	False = intern(&Term{K: KConst, W: 0, Val: 0})
}

// NumTerms returns how many distinct terms were created (for evidence).
func NumTerms() int { return nextID - 1 }

func intern(t *Term) *Term {
	n := len(t.Args)
	if t.Name != "" || n > 3 {
		var sb strings.Builder
		fmt.Fprintf(&sb, "%d/%d/%v/%d/%s/", t.K, t.W, t.Arr, t.Val, t.Name)
		for _, a := range t.Args {
			sb.WriteString(strconv.Itoa(a.ID))
			sb.WriteByte(',')
		}
		ks := sb.String()
		if e, ok := nameTable[ks]; ok {
			return e
		}
		t.ID = nextID
		nextID++
		nameTable[ks] = t
		return t
	}
	k := key{k: t.K, w: int32(t.W), arr: t.Arr, val: t.Val, n: int32(n)}
	if n > 0 {
		k.a0 = t.Args[0].ID
	}
	if n > 1 {
		k.a1 = t.Args[1].ID
	}
	if n > 2 {
		k.a2 = t.Args[2].ID
	}
	if e, ok := table[k]; ok {
		return e
	}
	t.ID = nextID
	nextID++
	table[k] = t
	return t
}

func mask(w int) uint64 {
	if w >= 64 {
		return ^uint64(0)
	}
	return (uint64(1) << uint(w)) - 1
}

func (t *Term) IsConst() bool         { return t.K == KConst }
func (t *Term) IsBool() bool          { return t.W == 0 && !t.Arr }
func (t *Term) IsTrue() bool          { return t == True }
func (t *Term) IsFalse() bool         { return t == False }
func (t *Term) ConstVal() uint64      { return t.Val }
func (t *Term) Hi() int               { return int(t.Val >> 8) }
func (t *Term) Lo() int               { return int(t.Val & 0xff) }
func (t *Term) SameSort(u *Term) bool { return t.W == u.W && t.Arr == u.Arr }

func Const(w int, v uint64) *Term {
	if w <= 0 || w > 64 {
		panic(fmt.Sprintf("term.Const: bad width %d", w))
	}
	v &= mask(w)
	if v < smallConstN {
		tab := smallConst[w]
		if tab == nil {
			tab = make([]*Term, smallConstN)
			smallConst[w] = tab
		}
		if t := tab[v]; t != nil {
			return t
		}
		t := intern(&Term{K: KConst, W: w, Val: v})
		tab[v] = t
		return t
	}
	if v < internConstBelow || w <= 16 || v == mask(w) {
		return intern(&Term{K: KConst, W: w, Val: v})
	}
	// large constants are not hash-consed (loops over 2^20 table slots would otherwise pin
	// millions of terms); equal constants are recognised by value wherever it matters (Same).
	// A small direct-mapped cache avoids re-allocating the constant a loop is currently working with.
	slot := &largeConst[(v*0x9E3779B97F4A7C15>>52)&(largeConstN-1)]
	if t := *slot; t != nil && t.Val == v && t.W == w {
		return t
	}
	t := &Term{K: KConst, W: w, Val: v, ID: nextID}
	nextID++
	*slot = t
	return t
}

const internConstBelow = 1 << 16
const smallConstN = 4096

var smallConst [65][]*Term

const largeConstN = 4096

var largeConst [largeConstN]*Term

// Same reports syntactic identity, looking through non-interned constants.
func Same(a, b *Term) bool {
	return a == b || (a.K == KConst && b.K == KConst && a.W == b.W && a.Val == b.Val && !a.Arr && !b.Arr)
}

func Bool(b bool) *Term {
	if b {
		return True
	}
	return False
}

func Var(name string, w int) *Term { return intern(&Term{K: KVar, W: w, Name: name}) }
func BoolVar(name string) *Term    { return intern(&Term{K: KVar, W: 0, Name: name}) }
func ArrVar(name string, ew int) *Term {
	return intern(&Term{K: KVar, W: ew, Arr: true, Name: name})
}

func mk(k Kind, w int, args ...*Term) *Term {
	return intern(&Term{K: k, W: w, Args: args})
}

// ---------------------------------------------------------------- Boolean

func Not(a *Term) *Term {
	if a.K == KConst {
		return Bool(a.Val == 0)
	}
	if a.K == KNot {
		return a.Args[0]
	}
	return mk(KNot, 0, a)
}

func isNegOf(a, b *Term) bool {
	return (a.K == KNot && a.Args[0] == b) || (b.K == KNot && b.Args[0] == a)
}

func And(xs ...*Term) *Term {
	var out []*Term
	seen := map[int]bool{}
	var add func(x *Term) bool
	add = func(x *Term) bool {
		if x == False {
			return false
		}
		if x == True || seen[x.ID] {
			return true
		}
		if x.K == KAnd {
			for _, y := range x.Args {
				if !add(y) {
					return false
				}
			}
			return true
		}
		seen[x.ID] = true
		out = append(out, x)
		return true
	}
	for _, x := range xs {
		if !add(x) {
			return False
		}
	}
	for _, x := range out {
		if x.K == KNot && seen[x.Args[0].ID] {
			return False
		}
	}
	if len(out) == 0 {
		return True
	}
	if len(out) == 1 {
		return out[0]
	}
	sort.Slice(out, func(i, j int) bool { return out[i].ID < out[j].ID })
	return intern(&Term{K: KAnd, Args: out})
}

func Or(xs ...*Term) *Term {
	var out []*Term
	seen := map[int]bool{}
	var add func(x *Term) bool
	add = func(x *Term) bool {
		if x == True {
			return false
		}
		if x == False || seen[x.ID] {
			return true
		}
		if x.K == KOr {
			for _, y := range x.Args {
				if !add(y) {
					return false
				}
			}
			return true
		}
		seen[x.ID] = true
		out = append(out, x)
		return true
	}
	for _, x := range xs {
		if !add(x) {
			return True
		}
	}
	for _, x := range out {
		if x.K == KNot && seen[x.Args[0].ID] {
			return True
		}
	}
	if len(out) == 0 {
		return False
	}
	if len(out) == 1 {
		return out[0]
	}
	// (p & q) | (p & !q) => p : common-factor two conjunctions differing in one negated literal
	if len(out) == 2 {
		if r := factorOr(out[0], out[1]); r != nil {
			return r
		}
	}
	sort.Slice(out, func(i, j int) bool { return out[i].ID < out[j].ID })
	return intern(&Term{K: KOr, Args: out})
}

func conjuncts(t *Term) []*Term {
	if t.K == KAnd {
		return t.Args
	}
	return []*Term{t}
}

func factorOr(a, b *Term) *Term {
	ca, cb := conjuncts(a), conjuncts(b)
	inB := map[int]bool{}
	for _, x := range cb {
		inB[x.ID] = true
	}
	inA := map[int]bool{}
	for _, x := range ca {
		inA[x.ID] = true
	}
	var common, onlyA, onlyB []*Term
	for _, x := range ca {
		if inB[x.ID] {
			common = append(common, x)
		} else {
			onlyA = append(onlyA, x)
		}
	}
	for _, x := range cb {
		if !inA[x.ID] {
			onlyB = append(onlyB, x)
		}
	}
	if len(common) == 0 {
		return nil
	}
	if len(onlyA) == 0 {
		return a // a is weaker: a | (a & r) = a
	}
	if len(onlyB) == 0 {
		return b
	}
	ra, rb := And(onlyA...), And(onlyB...)
	if isNegOf(ra, rb) {
		return And(common...)
	}
	inner := intern(&Term{K: KOr, Args: sorted2(ra, rb)})
	return And(append(append([]*Term{}, common...), inner)...)
}

func sorted2(a, b *Term) []*Term {
	if a.ID < b.ID {
		return []*Term{a, b}
	}
	return []*Term{b, a}
}

func Implies(a, b *Term) *Term { return Or(Not(a), b) }

func Ite(c, a, b *Term) *Term {
	if !a.SameSort(b) {
		panic(fmt.Sprintf("term.Ite: sort mismatch %v / %v", a, b))
	}
	if c == True {
		return a
	}
	if c == False {
		return b
	}
	if Same(a, b) {
		return a
	}
	if c.K == KNot {
		return Ite(c.Args[0], b, a)
	}
	if a.IsBool() {
		if a == True && b == False {
			return c
		}
		if a == False && b == True {
			return Not(c)
		}
		if a == True {
			return Or(c, b)
		}
		if a == False {
			return And(Not(c), b)
		}
		if b == True {
			return Or(Not(c), a)
		}
		if b == False {
			return And(c, a)
		}
	}
	// ite(c, ite(c, x, y), z) = ite(c, x, z)
	if a.K == KIte && a.Args[0] == c {
		a = a.Args[1]
	}
	if b.K == KIte && b.Args[0] == c {
		b = b.Args[2]
	}
	if a == b {
		return a
	}
	return intern(&Term{K: KIte, W: a.W, Arr: a.Arr, Args: []*Term{c, a, b}})
}

func Eq(a, b *Term) *Term {
	if !a.SameSort(b) {
		panic(fmt.Sprintf("term.Eq: sort mismatch %v / %v", a, b))
	}
	if a == b {
		return True
	}
	if a.K == KConst && b.K == KConst {
		return Bool(a.Val == b.Val)
	}
	if a.IsBool() {
		if a == True {
			return b
		}
		if b == True {
			return a
		}
		if a == False {
			return Not(b)
		}
		if b == False {
			return Not(a)
		}
	}
	if a.K == KConst {
		a, b = b, a
	}
	if !a.Arr && !a.IsBool() {
		if b.K == KConst {
			// ite(c, k1, k2) == k
			if a.K == KIte {
				x, y := a.Args[1], a.Args[2]
				if x.K == KConst || y.K == KConst {
					return Ite(a.Args[0], Eq(x, b), Eq(y, b))
				}
			}
			if a.K == KConcat {
				// part-wise
				var cs []*Term
				lo := 0
				for i := len(a.Args) - 1; i >= 0; i-- {
					p := a.Args[i]
					cs = append(cs, Eq(p, Const(p.W, b.Val>>uint(lo))))
					lo += p.W
				}
				return And(cs...)
			}
			if ub(a) < b.Val {
				return False
			}
			// (x + k1) == k2  =>  x == k2-k1
			if a.K == KAdd && a.Args[1].K == KConst {
				return Eq(a.Args[0], Const(a.W, b.Val-a.Args[1].Val))
			}
			if a.K == KBNot {
				return Eq(a.Args[0], Const(a.W, ^b.Val))
			}
		}
		if a.K == KConcat && b.K == KConcat && sameShape(a, b) {
			var cs []*Term
			for i := range a.Args {
				cs = append(cs, Eq(a.Args[i], b.Args[i]))
			}
			return And(cs...)
		}
		if ProvablyDistinct(a, b) {
			return False
		}
	}
	if a.Arr {
		if r := eqStoreChains(a, b); r != nil {
			return r
		}
	}
	if a.ID > b.ID && b.K != KConst {
		a, b = b, a
	}
	return mk(KEq, 0, a, b)
}

// eqStoreChains decides the equality of two arrays that are store chains over one common root
// without appealing to extensionality: outside the stored indices both equal the root, so they are
// equal exactly when they agree at every index stored to in either chain. Returns nil when the
// roots differ or the chains are long.
func eqStoreChains(a, b *Term) *Term {
	const maxIdx = 128
	var idx []*Term
	walk := func(t *Term) *Term {
		for t.K == KStore {
			dup := false
			for _, j := range idx {
				if Same(j, t.Args[1]) {
					dup = true
					break
				}
			}
			if !dup {
				if len(idx) >= maxIdx {
					return nil
				}
				idx = append(idx, t.Args[1])
			}
			t = t.Args[0]
		}
		return t
	}
	ra := walk(a)
	if ra == nil {
		return nil
	}
	rb := walk(b)
	if rb == nil || ra != rb {
		return nil
	}
	cs := make([]*Term, 0, len(idx))
	for _, j := range idx {
		cs = append(cs, Eq(Select(a, j), Select(b, j)))
	}
	return And(cs...)
}

func sameShape(a, b *Term) bool {
	if len(a.Args) != len(b.Args) {
		return false
	}
	for i := range a.Args {
		if a.Args[i].W != b.Args[i].W {
			return false
		}
	}
	return true
}

// splitAdd returns (base, offset) with t == base + offset (base may be nil for pure constants).
func splitAdd(t *Term) (*Term, uint64) {
	if t.K == KConst {
		return nil, t.Val
	}
	if t.K == KAdd && t.Args[1].K == KConst {
		return t.Args[0], t.Args[1].Val
	}
	return t, 0
}

// ProvablyDistinct is a cheap syntactic disequality test (sound, incomplete).
func ProvablyDistinct(a, b *Term) bool {
	if a == b || a.Arr || a.W != b.W || a.W == 0 {
		return false
	}
	if a.K == KConst && b.K == KConst {
		return a.Val != b.Val
	}
	ba, oa := splitAdd(a)
	bb, ob := splitAdd(b)
	if ba == bb && (oa-ob)&mask(a.W) != 0 {
		return true
	}
	if a.K == KConcat && b.K == KConcat && sameShape(a, b) {
		for i := range a.Args {
			if ProvablyDistinct(a.Args[i], b.Args[i]) {
				return true
			}
		}
		return false
	}
	if a.K == KConcat && b.K == KConst {
		return concatConstDistinct(a, b)
	}
	if b.K == KConcat && a.K == KConst {
		return concatConstDistinct(b, a)
	}
	if a.K == KConst && ub(b) < a.Val {
		return true
	}
	if b.K == KConst && ub(a) < b.Val {
		return true
	}
	return false
}

func concatConstDistinct(a, c *Term) bool {
	lo := 0
	for i := len(a.Args) - 1; i >= 0; i-- {
		p := a.Args[i]
		if p.K == KConst && p.Val != (c.Val>>uint(lo))&mask(p.W) {
			return true
		}
		lo += p.W
	}
	return false
}

// ub returns an upper bound of the unsigned value of a BV term.
func ub(t *Term) uint64 {
	switch t.K {
	case KConst:
		return t.Val
	case KConcat:
		var v uint64
		for _, p := range t.Args {
			v = v<<uint(p.W) | ub(p)
		}
		return v
	case KIte:
		a, b := ub(t.Args[1]), ub(t.Args[2])
		if a > b {
			return a
		}
		return b
	case KBAnd:
		a, b := ub(t.Args[0]), ub(t.Args[1])
		if a < b {
			return a
		}
		return b
	case KBOr, KBXor:
		a, b := ub(t.Args[0]), ub(t.Args[1])
		m := a | b
		if m == 0 {
			return 0
		}
		return mask(bits.Len64(m))
	case KURem:
		if t.Args[1].K == KConst && t.Args[1].Val > 0 {
			return t.Args[1].Val - 1
		}
	case KUDiv:
		if t.Args[1].K == KConst && t.Args[1].Val > 0 {
			return ub(t.Args[0]) / t.Args[1].Val
		}
	case KAdd:
		a, b := ub(t.Args[0]), ub(t.Args[1])
		s := a + b
		if s >= a && s <= mask(t.W) {
			return s
		}
	case KLShr:
		if t.Args[1].K == KConst {
			return ub(t.Args[0]) >> uint(min(int(t.Args[1].Val), 63))
		}
	}
	return mask(t.W)
}

// lb returns a lower bound of the unsigned value of a BV term.
func lb(t *Term) uint64 {
	switch t.K {
	case KConst:
		return t.Val
	case KConcat:
		var v uint64
		for _, p := range t.Args {
			v = v<<uint(p.W) | lb(p)
		}
		return v
	case KIte:
		a, b := lb(t.Args[1]), lb(t.Args[2])
		if a < b {
			return a
		}
		return b
	case KBOr:
		a, b := lb(t.Args[0]), lb(t.Args[1])
		if a > b {
			return a
		}
		return b
	}
	return 0
}

// UB exposes the cheap upper bound analysis.
func UB(t *Term) uint64 { return ub(t) }

func Ult(a, b *Term) *Term {
	if a.K == KConst && b.K == KConst {
		return Bool(a.Val < b.Val)
	}
	if a == b {
		return False
	}
	if b.K == KConst {
		if b.Val == 0 {
			return False
		}
		if ub(a) < b.Val {
			return True
		}
		if lb(a) >= b.Val {
			return False
		}
		if b.Val == 1 {
			return Eq(a, Const(a.W, 0))
		}
		// concat(0.., x) < 2^k style: leading zeros handled by ub; try power of two
		if b.Val&(b.Val-1) == 0 {
			k := bits.TrailingZeros64(b.Val)
			return Eq(Extract(a, a.W-1, k), Const(a.W-k, 0))
		}
	}
	if a.K == KConst {
		if a.Val == mask(a.W) {
			return False
		}
		if ub(b) <= a.Val {
			return False
		}
		if lb(b) > a.Val {
			return True
		}
		if a.Val == 0 {
			return Not(Eq(b, Const(b.W, 0)))
		}
	}
	return mk(KUlt, 0, a, b)
}

func Ule(a, b *Term) *Term { return Not(Ult(b, a)) }
func Ugt(a, b *Term) *Term { return Ult(b, a) }
func Uge(a, b *Term) *Term { return Not(Ult(a, b)) }

func sx(v uint64, w int) int64 {
	sh := uint(64 - w)
	return int64(v<<sh) >> sh
}

func Slt(a, b *Term) *Term {
	if a.K == KConst && b.K == KConst {
		return Bool(sx(a.Val, a.W) < sx(b.Val, b.W))
	}
	if a == b {
		return False
	}
	// both provably non-negative => unsigned compare
	h := uint64(1) << uint(a.W-1)
	if ub(a) < h && ub(b) < h {
		return Ult(a, b)
	}
	return mk(KSlt, 0, a, b)
}
func Sle(a, b *Term) *Term { return Not(Slt(b, a)) }
func Sgt(a, b *Term) *Term { return Slt(b, a) }
func Sge(a, b *Term) *Term { return Not(Slt(a, b)) }

// ---------------------------------------------------------------- bit-vector arithmetic

func chk2(op string, a, b *Term) {
	if a.W != b.W || a.W == 0 || a.Arr || b.Arr {
		panic(fmt.Sprintf("term.%s: width mismatch %d/%d", op, a.W, b.W))
	}
}

func Add(a, b *Term) *Term {
	chk2("Add", a, b)
	if a.K == KConst && b.K == KConst {
		return Const(a.W, a.Val+b.Val)
	}
	if a.K == KConst {
		a, b = b, a
	}
	if b.K == KConst {
		if b.Val == 0 {
			return a
		}
		if a.K == KAdd && a.Args[1].K == KConst {
			return Add(a.Args[0], Const(a.W, a.Args[1].Val+b.Val))
		}
		if a.K == KIte && a.Args[1].K == KConst && a.Args[2].K == KConst {
			return Ite(a.Args[0], Add(a.Args[1], b), Add(a.Args[2], b))
		}
		return mk(KAdd, a.W, a, b)
	}
	// (x + k) + y => (x + y) + k
	if a.K == KAdd && a.Args[1].K == KConst {
		return Add(Add(a.Args[0], b), a.Args[1])
	}
	if b.K == KAdd && b.Args[1].K == KConst {
		return Add(Add(a, b.Args[0]), b.Args[1])
	}
	if a.ID > b.ID {
		a, b = b, a
	}
	return mk(KAdd, a.W, a, b)
}

func Neg(a *Term) *Term {
	if a.K == KConst {
		return Const(a.W, -a.Val)
	}
	if a.K == KNeg {
		return a.Args[0]
	}
	return mk(KNeg, a.W, a)
}

func Sub(a, b *Term) *Term {
	chk2("Sub", a, b)
	if a == b {
		return Const(a.W, 0)
	}
	if b.K == KConst {
		return Add(a, Const(a.W, -b.Val))
	}
	if a.K == KConst && a.Val == 0 {
		return Neg(b)
	}
	// (x + k) - x
	ba, oa := splitAdd(a)
	bb, ob := splitAdd(b)
	if ba != nil && ba == bb {
		return Const(a.W, oa-ob)
	}
	if oa != 0 || ob != 0 {
		if ba == nil {
			ba = Const(a.W, 0)
		}
		if bb == nil {
			bb = Const(a.W, 0)
		}
		return Add(mkSub(ba, bb), Const(a.W, oa-ob))
	}
	return mkSub(a, b)
}

func mkSub(a, b *Term) *Term {
	if a == b {
		return Const(a.W, 0)
	}
	if b.K == KConst && b.Val == 0 {
		return a
	}
	// (x + y) - y
	if a.K == KAdd {
		if a.Args[0] == b {
			return a.Args[1]
		}
		if a.Args[1] == b {
			return a.Args[0]
		}
	}
	return mk(KSub, a.W, a, b)
}

func Mul(a, b *Term) *Term {
	chk2("Mul", a, b)
	if a.K == KConst && b.K == KConst {
		return Const(a.W, a.Val*b.Val)
	}
	if a.K == KConst {
		a, b = b, a
	}
	if b.K == KConst {
		if b.Val == 0 {
			return b
		}
		if b.Val == 1 {
			return a
		}
		if b.Val&(b.Val-1) == 0 {
			return Shl(a, Const(a.W, uint64(bits.TrailingZeros64(b.Val))))
		}
	}
	return mk(KMul, a.W, a, b)
}

func UDiv(a, b *Term) *Term {
	chk2("UDiv", a, b)
	if b.K == KConst && b.Val != 0 {
		if a.K == KConst {
			return Const(a.W, a.Val/b.Val)
		}
		if b.Val == 1 {
			return a
		}
		if b.Val&(b.Val-1) == 0 {
			return LShr(a, Const(a.W, uint64(bits.TrailingZeros64(b.Val))))
		}
	}
	return mk(KUDiv, a.W, a, b)
}

func URem(a, b *Term) *Term {
	chk2("URem", a, b)
	if b.K == KConst && b.Val != 0 {
		if a.K == KConst {
			return Const(a.W, a.Val%b.Val)
		}
		if b.Val&(b.Val-1) == 0 {
			return BAnd(a, Const(a.W, b.Val-1))
		}
	}
	return mk(KURem, a.W, a, b)
}

func SDiv(a, b *Term) *Term {
	chk2("SDiv", a, b)
	if a.K == KConst && b.K == KConst && b.Val != 0 {
		x, y := sx(a.Val, a.W), sx(b.Val, b.W)
		if !(y == -1 && x == sx(uint64(1)<<uint(a.W-1), a.W)) {
			return Const(a.W, uint64(x/y))
		}
		return a
	}
	return mk(KSDiv, a.W, a, b)
}

func SRem(a, b *Term) *Term {
	chk2("SRem", a, b)
	if a.K == KConst && b.K == KConst && b.Val != 0 {
		x, y := sx(a.Val, a.W), sx(b.Val, b.W)
		if y == -1 {
			return Const(a.W, 0)
		}
		return Const(a.W, uint64(x%y))
	}
	return mk(KSRem, a.W, a, b)
}

// ---------------------------------------------------------------- bitwise

// parts describes a term as a list of (term) slices high..low; a non-concat is one part.
func partsOf(t *Term) []*Term {
	if t.K == KConcat {
		return t.Args
	}
	return []*Term{t}
}

func allOnes(t *Term) bool { return t.K == KConst && t.Val == mask(t.W) }
func isZero(t *Term) bool  { return t.K == KConst && t.Val == 0 }

// bitwise2 tries the concat-partition rule: if on every refined segment at least one side is
// constant, the operation is resolved segment-wise. Returns nil if the rule does not apply.
func bitwise2(op Kind, a, b *Term) *Term {
	pa, pb := partsOf(a), partsOf(b)
	if len(pa) == 1 && len(pb) == 1 {
		return nil
	}
	if (len(pa) == 1 && pa[0].K != KConst) && (len(pb) == 1 && pb[0].K != KConst) {
		return nil
	}
	// walk from the high end
	var out []*Term
	ia, ib := 0, 0
	offA, offB := 0, 0 // bits already consumed from the top of pa[ia], pb[ib]
	for ia < len(pa) && ib < len(pb) {
		ra, rb := pa[ia].W-offA, pb[ib].W-offB
		n := ra
		if rb < n {
			n = rb
		}
		sa := Extract(pa[ia], ra-1, ra-n)
		sb := Extract(pb[ib], rb-1, rb-n)
		var r *Term
		switch {
		case sa.K == KConst && sb.K == KConst:
			switch op {
			case KBAnd:
				r = Const(n, sa.Val&sb.Val)
			case KBOr:
				r = Const(n, sa.Val|sb.Val)
			default:
				r = Const(n, sa.Val^sb.Val)
			}
		case sa.K == KConst || sb.K == KConst:
			c, x := sa, sb
			if sb.K == KConst {
				c, x = sb, sa
			}
			switch op {
			case KBAnd:
				if isZero(c) {
					r = c
				} else if allOnes(c) {
					r = x
				}
			case KBOr:
				if isZero(c) {
					r = x
				} else if allOnes(c) {
					r = c
				}
			case KBXor:
				if isZero(c) {
					r = x
				} else if allOnes(c) {
					r = BNot(x)
				}
			}
			if r == nil {
				// mixed constant: split into runs of equal bits
				r = maskRuns(op, x, c)
			}
		default:
			if sa == sb {
				if op == KBXor {
					r = Const(n, 0)
				} else {
					r = sa
				}
			} else {
				return nil
			}
		}
		out = append(out, r)
		offA += n
		offB += n
		if offA == pa[ia].W {
			ia++
			offA = 0
		}
		if offB == pb[ib].W {
			ib++
			offB = 0
		}
	}
	return Concat(out...)
}

// maskRuns applies op(x, c) for a constant c by splitting into runs of identical bits.
func maskRuns(op Kind, x, c *Term) *Term {
	w := x.W
	var out []*Term
	hi := w - 1
	for hi >= 0 {
		bit := (c.Val >> uint(hi)) & 1
		lo := hi
		for lo > 0 && (c.Val>>uint(lo-1))&1 == bit {
			lo--
		}
		n := hi - lo + 1
		seg := Extract(x, hi, lo)
		var r *Term
		switch op {
		case KBAnd:
			if bit == 1 {
				r = seg
			} else {
				r = Const(n, 0)
			}
		case KBOr:
			if bit == 1 {
				r = Const(n, mask(n))
			} else {
				r = seg
			}
		default:
			if bit == 1 {
				r = BNot(seg)
			} else {
				r = seg
			}
		}
		out = append(out, r)
		hi = lo - 1
	}
	return Concat(out...)
}

func runs(v uint64, w int) int {
	n := 1
	for i := 1; i < w; i++ {
		if (v>>uint(i))&1 != (v>>uint(i-1))&1 {
			n++
		}
	}
	return n
}

func BAnd(a, b *Term) *Term {
	chk2("BAnd", a, b)
	if a == b {
		return a
	}
	if a.K == KConst {
		a, b = b, a
	}
	if b.K == KConst {
		if a.K == KConst {
			return Const(a.W, a.Val&b.Val)
		}
		if b.Val == 0 {
			return b
		}
		if allOnes(b) {
			return a
		}
		if a.K == KIte && a.Args[1].K == KConst && a.Args[2].K == KConst {
			return Ite(a.Args[0], BAnd(a.Args[1], b), BAnd(a.Args[2], b))
		}
		if a.K == KConcat || runs(b.Val, b.W) <= 6 {
			if a.K == KConcat {
				if r := bitwise2(KBAnd, a, b); r != nil {
					return r
				}
			}
			return maskRuns(KBAnd, a, b)
		}
	}
	if a.K == KConcat || b.K == KConcat {
		if r := bitwise2(KBAnd, a, b); r != nil {
			return r
		}
	}
	if a.ID > b.ID {
		a, b = b, a
	}
	return mk(KBAnd, a.W, a, b)
}

func BOr(a, b *Term) *Term {
	chk2("BOr", a, b)
	if a == b {
		return a
	}
	if a.K == KConst {
		a, b = b, a
	}
	if b.K == KConst {
		if a.K == KConst {
			return Const(a.W, a.Val|b.Val)
		}
		if b.Val == 0 {
			return a
		}
		if allOnes(b) {
			return b
		}
		if a.K == KIte && a.Args[1].K == KConst && a.Args[2].K == KConst {
			return Ite(a.Args[0], BOr(a.Args[1], b), BOr(a.Args[2], b))
		}
		if a.K == KConcat || runs(b.Val, b.W) <= 6 {
			if a.K == KConcat {
				if r := bitwise2(KBOr, a, b); r != nil {
					return r
				}
			}
			return maskRuns(KBOr, a, b)
		}
	}
	if a.K == KConcat || b.K == KConcat {
		if r := bitwise2(KBOr, a, b); r != nil {
			return r
		}
	}
	if a.W <= 16 && (a.K == KBOr || b.K == KBOr || a.K == KConcat || b.K == KConcat) {
		// flag bytes: an OR of constants and of ite(c, k1, k2) with constant arms is rebuilt bit by
		// bit, so that the same byte assembled with another grouping of the ORs is the same term
		if sa, ok := bitSlice(a); ok {
			if sb, ok := bitSlice(b); ok {
				parts := make([]*Term, a.W)
				for i := 0; i < a.W; i++ {
					x, y := sa[i], sb[i]
					switch {
					case x.K == KConst && x.Val == 1, y.K == KConst && y.Val == 0:
						parts[a.W-1-i] = x
					case y.K == KConst && y.Val == 1, x.K == KConst && x.Val == 0:
						parts[a.W-1-i] = y
					case x == y:
						parts[a.W-1-i] = x
					default:
						if x.ID > y.ID {
							x, y = y, x
						}
						parts[a.W-1-i] = mk(KBOr, 1, x, y)
					}
				}
				return Concat(parts...)
			}
		}
	}
	if a.K == KBOr || b.K == KBOr {
		// OR is associative and commutative: a tree of ORs is rebuilt as a left-deep chain over its
		// leaves sorted by identity, so that (c|z)|(i|d) and ((c|z)|i)|d are one term
		var leaves []*Term
		var walk func(t *Term)
		walk = func(t *Term) {
			if t.K == KBOr {
				walk(t.Args[0])
				walk(t.Args[1])
				return
			}
			for _, l := range leaves {
				if l == t {
					return
				}
			}
			leaves = append(leaves, t)
		}
		walk(a)
		walk(b)
		sort.Slice(leaves, func(i, j int) bool { return leaves[i].ID < leaves[j].ID })
		r := leaves[0]
		for _, l := range leaves[1:] {
			r = mk(KBOr, a.W, r, l)
		}
		return r
	}
	if a.ID > b.ID {
		a, b = b, a
	}
	return mk(KBOr, a.W, a, b)
}

func BXor(a, b *Term) *Term {
	chk2("BXor", a, b)
	if a == b {
		return Const(a.W, 0)
	}
	if a.K == KConst {
		a, b = b, a
	}
	if b.K == KConst {
		if a.K == KConst {
			return Const(a.W, a.Val^b.Val)
		}
		if b.Val == 0 {
			return a
		}
		if allOnes(b) {
			return BNot(a)
		}
		if a.K == KIte && a.Args[1].K == KConst && a.Args[2].K == KConst {
			return Ite(a.Args[0], BXor(a.Args[1], b), BXor(a.Args[2], b))
		}
	}
	if a.K == KConcat || b.K == KConcat {
		if r := bitwise2(KBXor, a, b); r != nil {
			return r
		}
	}
	if a.ID > b.ID {
		a, b = b, a
	}
	return mk(KBXor, a.W, a, b)
}

func BNot(a *Term) *Term {
	if a.K == KConst {
		return Const(a.W, ^a.Val)
	}
	if a.K == KBNot {
		return a.Args[0]
	}
	if a.K == KIte && a.Args[1].K == KConst && a.Args[2].K == KConst {
		return Ite(a.Args[0], BNot(a.Args[1]), BNot(a.Args[2]))
	}
	if a.K == KConcat {
		out := make([]*Term, len(a.Args))
		for i, p := range a.Args {
			out[i] = BNot(p)
		}
		return Concat(out...)
	}
	return mk(KBNot, a.W, a)
}

// Shifts: the amount has the same width as the value (callers normalise).
func Shl(a, n *Term) *Term {
	if n.K == KConst {
		c := n.Val
		if c == 0 {
			return a
		}
		if c >= uint64(a.W) {
			return Const(a.W, 0)
		}
		return Concat(Extract(a, a.W-1-int(c), 0), Const(int(c), 0))
	}
	if a.K == KConst && a.Val == 0 {
		return a
	}
	chk2("Shl", a, n)
	return mk(KShl, a.W, a, n)
}

func LShr(a, n *Term) *Term {
	if n.K == KConst {
		c := n.Val
		if c == 0 {
			return a
		}
		if c >= uint64(a.W) {
			return Const(a.W, 0)
		}
		return Concat(Const(int(c), 0), Extract(a, a.W-1, int(c)))
	}
	if a.K == KConst && a.Val == 0 {
		return a
	}
	chk2("LShr", a, n)
	return mk(KLShr, a.W, a, n)
}

func AShr(a, n *Term) *Term {
	if n.K == KConst {
		c := n.Val
		if c == 0 {
			return a
		}
		if a.K == KConst {
			if c >= uint64(a.W) {
				c = uint64(a.W - 1)
			}
			return Const(a.W, uint64(sx(a.Val, a.W)>>uint(c)))
		}
		if c >= uint64(a.W) {
			c = uint64(a.W - 1)
		}
		return SExt(Extract(a, a.W-1, int(c)), a.W)
	}
	chk2("AShr", a, n)
	return mk(KAShr, a.W, a, n)
}

// Concat joins parts high..low, flattening and merging.
func Concat(ps ...*Term) *Term {
	var flat []*Term
	for _, p := range ps {
		if p == nil {
			continue
		}
		if p.W == 0 || p.Arr {
			panic("term.Concat: non-BV part")
		}
		if p.K == KConcat {
			flat = append(flat, p.Args...)
		} else {
			flat = append(flat, p)
		}
	}
	var out []*Term
	for _, p := range flat {
		if n := len(out); n > 0 {
			q := out[n-1]
			if q.K == KConst && p.K == KConst && q.W+p.W <= 64 {
				out[n-1] = Const(q.W+p.W, q.Val<<uint(p.W)|p.Val)
				continue
			}
			if q.K == KExtract && p.K == KExtract && q.Args[0] == p.Args[0] && q.Lo() == p.Hi()+1 {
				out[n-1] = Extract(q.Args[0], q.Hi(), p.Lo())
				continue
			}
			// ite(c,k1,k2) next to constants: fold the constant into the ite
			if q.K == KConst && p.K == KIte && p.Args[1].K == KConst && p.Args[2].K == KConst && q.W+p.W <= 64 {
				out[n-1] = Ite(p.Args[0], Concat(q, p.Args[1]), Concat(q, p.Args[2]))
				continue
			}
			if p.K == KConst && q.K == KIte && q.Args[1].K == KConst && q.Args[2].K == KConst && q.W+p.W <= 64 {
				out[n-1] = Ite(q.Args[0], Concat(q.Args[1], p), Concat(q.Args[2], p))
				continue
			}
		}
		out = append(out, p)
	}
	if len(out) == 1 {
		return out[0]
	}
	w := 0
	for _, p := range out {
		w += p.W
	}
	if w > 64 {
		panic("term.Concat: width > 64")
	}
	return intern(&Term{K: KConcat, W: w, Args: out})
}

func Extract(a *Term, hi, lo int) *Term {
	if hi < lo || lo < 0 || hi >= a.W {
		panic(fmt.Sprintf("term.Extract: bad range [%d:%d] of width %d", hi, lo, a.W))
	}
	w := hi - lo + 1
	if w == a.W {
		return a
	}
	switch a.K {
	case KConst:
		return Const(w, a.Val>>uint(lo))
	case KExtract:
		return Extract(a.Args[0], a.Lo()+hi, a.Lo()+lo)
	case KConcat:
		var out []*Term
		top := a.W
		for _, p := range a.Args {
			pl := top - p.W // this part covers bits [top-1 : pl]
			ph := top - 1
			top = pl
			if ph < lo || pl > hi {
				continue
			}
			h, l := ph, pl
			if h > hi {
				h = hi
			}
			if l < lo {
				l = lo
			}
			out = append(out, Extract(p, h-pl, l-pl))
		}
		return Concat(out...)
	case KIte:
		x, y := a.Args[1], a.Args[2]
		if (x.K == KConst || x.K == KConcat || x.K == KIte) && (y.K == KConst || y.K == KConcat || y.K == KIte) {
			return Ite(a.Args[0], Extract(x, hi, lo), Extract(y, hi, lo))
		}
	case KBAnd, KBOr, KBXor:
		x, y := Extract(a.Args[0], hi, lo), Extract(a.Args[1], hi, lo)
		switch a.K {
		case KBAnd:
			return BAnd(x, y)
		case KBOr:
			return BOr(x, y)
		default:
			return BXor(x, y)
		}
	case KBNot:
		return BNot(Extract(a.Args[0], hi, lo))
	case KAdd, KSub, KMul, KNeg:
		if lo == 0 {
			// low bits of modular arithmetic depend on low bits only
			switch a.K {
			case KAdd:
				return Add(Extract(a.Args[0], hi, 0), Extract(a.Args[1], hi, 0))
			case KSub:
				return Sub(Extract(a.Args[0], hi, 0), Extract(a.Args[1], hi, 0))
			case KMul:
				return Mul(Extract(a.Args[0], hi, 0), Extract(a.Args[1], hi, 0))
			case KNeg:
				return Neg(Extract(a.Args[0], hi, 0))
			}
		}
	case KSExt:
		in := a.Args[0]
		if hi < in.W {
			return Extract(in, hi, lo)
		}
		if lo < in.W {
			return SExt(Extract(in, in.W-1, lo), w)
		}
	}
	return intern(&Term{K: KExtract, W: w, Args: []*Term{a}, Val: uint64(hi)<<8 | uint64(lo)})
}

func ZExt(a *Term, w int) *Term {
	if w == a.W {
		return a
	}
	if w < a.W {
		panic("term.ZExt: narrowing")
	}
	if a.K == KConst {
		return Const(w, a.Val)
	}
	return Concat(Const(w-a.W, 0), a)
}

func SExt(a *Term, w int) *Term {
	if w == a.W {
		return a
	}
	if w < a.W {
		panic("term.SExt: narrowing")
	}
	if a.K == KConst {
		return Const(w, uint64(sx(a.Val, a.W)))
	}
	if ub(a) < uint64(1)<<uint(a.W-1) {
		return ZExt(a, w)
	}
	if a.K == KIte && a.Args[1].K == KConst && a.Args[2].K == KConst {
		return Ite(a.Args[0], SExt(a.Args[1], w), SExt(a.Args[2], w))
	}
	if a.K == KSExt {
		return SExt(a.Args[0], w)
	}
	return intern(&Term{K: KSExt, W: w, Args: []*Term{a}})
}

// Resize converts to width w: truncates, zero-extends or sign-extends.
func Resize(a *Term, w int, signed bool) *Term {
	if w == a.W {
		return a
	}
	if w < a.W {
		return Extract(a, w-1, 0)
	}
	if signed {
		return SExt(a, w)
	}
	return ZExt(a, w)
}

// ---------------------------------------------------------------- arrays

func ConstArr(ew int, v *Term) *Term {
	return intern(&Term{K: KConstArr, W: ew, Arr: true, Args: []*Term{v}})
}

func Select(arr, idx *Term) *Term {
	if !arr.Arr || idx.W != IdxW {
		panic("term.Select: bad sorts")
	}
	if idx.K != KConst && arr.K == KStore {
		if tb := constTableOf(arr); tb != nil {
			return tb.lookup(idx)
		}
	}
	cur := arr
	for {
		switch cur.K {
		case KStore:
			if Same(cur.Args[1], idx) {
				return cur.Args[2]
			}
			if ProvablyDistinct(cur.Args[1], idx) {
				cur = cur.Args[0]
				continue
			}
		case KConstArr:
			return cur.Args[0]
		case KIte:
			return Ite(cur.Args[0], Select(cur.Args[1], idx), Select(cur.Args[2], idx))
		}
		break
	}
	return intern(&Term{K: KSelect, W: arr.W, Args: []*Term{cur, idx}})
}

func Store(arr, idx, v *Term) *Term {
	if !arr.Arr || idx.W != IdxW || v.W != arr.W {
		panic(fmt.Sprintf("term.Store: bad sorts (elem %d, val %d, idx %d)", arr.W, v.W, idx.W))
	}
	if arr.K == KStore && Same(arr.Args[1], idx) {
		arr = arr.Args[0]
	}
	if v.K == KSelect && v.Args[0] == arr && Same(v.Args[1], idx) {
		return arr
	}
	if arr.K == KConstArr && Same(arr.Args[0], v) {
		return arr
	}
	// keep stores at constant indices sorted so that equal contents get equal terms
	if arr.K == KStore && idx.K == KConst && arr.Args[1].K == KConst && arr.Args[1].Val > idx.Val {
		return Store(Store(arr.Args[0], idx, v), arr.Args[1], arr.Args[2])
	}
	return intern(&Term{K: KStore, W: arr.W, Arr: true, Args: []*Term{arr, idx, v}})
}

// ---------------------------------------------------------------- printing

func (t *Term) String() string {
	var sb strings.Builder
	t.write(&sb, 0)
	return sb.String()
}

func (t *Term) write(sb *strings.Builder, depth int) {
	if depth > 6 {
		sb.WriteString("...")
		return
	}
	switch t.K {
	case KConst:
		if t.W == 0 {
			if t.Val != 0 {
				sb.WriteString("true")
			} else {
				sb.WriteString("false")
			}
			return
		}
		fmt.Fprintf(sb, "%#x:%d", t.Val, t.W)
	case KVar:
		sb.WriteString(t.Name)
	case KExtract:
		sb.WriteString("(")
		t.Args[0].write(sb, depth+1)
		fmt.Fprintf(sb, ")[%d:%d]", t.Hi(), t.Lo())
	default:
		sb.WriteString("(")
		sb.WriteString(kindNames[t.K])
		for _, a := range t.Args {
			sb.WriteString(" ")
			a.write(sb, depth+1)
		}
		sb.WriteString(")")
	}
}

// ---------------------------------------------------------------- constant tables

// A constant table is an array term built only from stores of constant values at constant indices
// over a constant array (a Go table such as decCycles_flagM). A symbolic lookup into it is encoded
// as a decision tree over the index bits instead of a select over hundreds of stores: pure
// bit-vector reasoning, and equal tables give equal trees.
type constTable struct {
	w    int
	def  uint64
	bits int
	vals []uint64 // 1<<bits entries
}

var constTables = map[int]*constTable{}

func constTableOf(arr *Term) *constTable {
	if tb, ok := constTables[arr.ID]; ok {
		return tb
	}
	var tb *constTable
	defer func() { constTables[arr.ID] = tb }()
	n := 0
	var maxIdx uint64
	cur := arr
	for cur.K == KStore {
		if cur.Args[1].K != KConst || cur.Args[2].K != KConst {
			return nil
		}
		if cur.Args[1].Val > maxIdx {
			maxIdx = cur.Args[1].Val
		}
		n++
		cur = cur.Args[0]
	}
	if cur.K != KConstArr || cur.Args[0].K != KConst || n < 8 || maxIdx >= 1<<12 {
		return nil
	}
	bits := 1
	for uint64(1)<<uint(bits) <= maxIdx {
		bits++
	}
	t := &constTable{w: arr.W, def: cur.Args[0].Val, bits: bits, vals: make([]uint64, 1<<uint(bits))}
	for i := range t.vals {
		t.vals[i] = t.def
	}
	seen := make([]bool, len(t.vals))
	for cur = arr; cur.K == KStore; cur = cur.Args[0] {
		i := cur.Args[1].Val
		if !seen[i] { // the outermost store to an index wins
			seen[i] = true
			t.vals[i] = cur.Args[2].Val
		}
	}
	tb = t
	return tb
}

// LookupConstTable is the decision-tree lookup for a table of constants given directly (index of
// any width; indices beyond the table yield def).
func LookupConstTable(vals []uint64, w int, def uint64, idx *Term) *Term {
	bits := 1
	for 1<<uint(bits) < len(vals) {
		bits++
	}
	t := &constTable{w: w, def: def, bits: bits, vals: make([]uint64, 1<<uint(bits))}
	for i := range t.vals {
		t.vals[i] = def
	}
	copy(t.vals, vals)
	return t.lookupW(idx, idx.W)
}

func (t *constTable) lookup(idx *Term) *Term { return t.lookupW(idx, IdxW) }

func (t *constTable) lookupW(idx *Term, iw int) *Term {
	var build func(lo uint64, bit int) *Term
	build = func(lo uint64, bit int) *Term {
		span := uint64(1) << uint(bit)
		same := true
		for i := lo + 1; i < lo+span; i++ {
			if t.vals[i] != t.vals[lo] {
				same = false
				break
			}
		}
		if same {
			return Const(t.w, t.vals[lo])
		}
		b := Eq(Extract(idx, bit-1, bit-1), Const(1, 1))
		return Ite(b, build(lo+span/2, bit-1), build(lo, bit-1))
	}
	tree := build(0, t.bits)
	if t.bits >= iw {
		return tree
	}
	return Ite(Ult(idx, Const(iw, uint64(1)<<uint(t.bits))), tree, Const(t.w, t.def))
}

// bitSlice returns the bits of t (index 0 = least significant) as one-bit terms when t is built
// only from constants, ite(c, k1, k2) with constant arms, one-bit terms, concatenations and ORs of
// such; ok is false otherwise.
func bitSlice(t *Term) ([]*Term, bool) {
	if t.W > 16 {
		return nil, false
	}
	out := make([]*Term, t.W)
	switch {
	case t.K == KConst:
		for i := range out {
			out[i] = Const(1, t.Val>>uint(i)&1)
		}
		return out, true
	case t.W == 1:
		out[0] = t
		return out, true
	case t.K == KIte && t.Args[1].K == KConst && t.Args[2].K == KConst:
		for i := range out {
			x, y := t.Args[1].Val>>uint(i)&1, t.Args[2].Val>>uint(i)&1
			if x == y {
				out[i] = Const(1, x)
			} else {
				out[i] = intern(&Term{K: KIte, W: 1, Args: []*Term{t.Args[0], Const(1, x), Const(1, y)}})
			}
		}
		return out, true
	case t.K == KConcat:
		pos := t.W
		for _, p := range t.Args {
			ps, ok := bitSlice(p)
			if !ok {
				return nil, false
			}
			pos -= p.W
			copy(out[pos:], ps)
		}
		return out, true
	case t.K == KBOr:
		xs, ok1 := bitSlice(t.Args[0])
		ys, ok2 := bitSlice(t.Args[1])
		if !ok1 || !ok2 {
			return nil, false
		}
		for i := range out {
			x, y := xs[i], ys[i]
			switch {
			case x.K == KConst && x.Val == 1, y.K == KConst && y.Val == 0:
				out[i] = x
			case y.K == KConst && y.Val == 1, x.K == KConst && x.Val == 0:
				out[i] = y
			case x == y:
				out[i] = x
			default:
				if x.ID > y.ID {
					x, y = y, x
				}
				out[i] = mk(KBOr, 1, x, y)
			}
		}
		return out, true
	}
	return nil, false
}
