// Package smt drives a long-lived SMT solver process (z3 -in, z3-new -in, cvc5 --incremental)
// over SMT-LIB2 text.
package smt

import (
	"bufio"
	"fmt"
	"io"
	"os/exec"
	"regexp"
	"strconv"
	"strings"
	"syscall"
	"time"

	"verif/internal/term"
)

type Result int

const (
	Unsat Result = iota
	Sat
	Unknown
)

func (r Result) String() string { return [...]string{"unsat", "sat", "unknown"}[r] }

type Stats struct {
	Queries   int
	Sat       int
	Unsat     int
	Unknown   int
	SolverSec float64
	MaxSec    float64
}

type Solver struct {
	Kind      string
	TimeoutMs int
	cmd       *exec.Cmd
	in        io.WriteCloser
	out       *bufio.Reader
	declared  map[string]string // var name -> sort
	seq       int
	Stats     Stats
	Log       io.Writer // optional transcript
	lines     chan string
	dead      bool
}

func New(kind string, timeoutMs int) (*Solver, error) {
	s := &Solver{Kind: kind, TimeoutMs: timeoutMs}
	if err := s.start(); err != nil {
		return nil, err
	}
	return s, nil
}

func (s *Solver) start() error {
	var cmd *exec.Cmd
	switch s.Kind {
	case "z3":
		cmd = exec.Command("z3", "-in")
	case "z3-new":
		cmd = exec.Command("z3-new", "-in")
	case "cvc5":
		cmd = exec.Command("cvc5", "--incremental", "--produce-models", fmt.Sprintf("--tlimit-per=%d", s.TimeoutMs), "--lang=smt2")
	case "cvc5-int":
		// bit-vectors solved as integers with mod-2^k semantics kept: decides mul/div kernels that bit-blasting does not
		cmd = exec.Command("cvc5", "--incremental", "--produce-models", "--solve-bv-as-int=sum", fmt.Sprintf("--tlimit-per=%d", s.TimeoutMs), "--lang=smt2")
	default:
		return fmt.Errorf("unknown solver %q", s.Kind)
	}
	in, err := cmd.StdinPipe()
	if err != nil {
		return err
	}
	out, err := cmd.StdoutPipe()
	if err != nil {
		return err
	}
	cmd.Stderr = cmd.Stdout
	cmd.SysProcAttr = &syscall.SysProcAttr{Pdeathsig: syscall.SIGKILL} // solvers die with their worker
	if err := cmd.Start(); err != nil {
		return err
	}
	s.cmd, s.in, s.out = cmd, in, bufio.NewReaderSize(out, 1<<20)
	s.declared = map[string]string{}
	s.dead = false
	s.lines = make(chan string, 1024)
	go func(r *bufio.Reader, ch chan string) {
		for {
			l, err := r.ReadString('\n')
			if l != "" {
				ch <- strings.TrimRight(l, "\r\n")
			}
			if err != nil {
				close(ch)
				return
			}
		}
	}(s.out, s.lines)
	s.send("(set-option :produce-models true)")
	if s.Kind != "cvc5" && s.Kind != "cvc5-int" {
		s.send(fmt.Sprintf("(set-option :timeout %d)", s.TimeoutMs))
	}
	s.send("(set-logic ALL)")
	return nil
}

func (s *Solver) send(line string) {
	if s.Log != nil {
		fmt.Fprintln(s.Log, line)
	}
	io.WriteString(s.in, line)
	io.WriteString(s.in, "\n")
}

func (s *Solver) Close() {
	if s.cmd != nil {
		s.in.Close()
		s.cmd.Process.Kill()
		s.cmd.Wait()
		s.cmd = nil
	}
}

func (s *Solver) restart() {
	s.Close()
	s.start()
}

// readUntil collects output lines until the sentinel echo appears or the wall-clock limit passes.
func (s *Solver) readUntil(sentinel string, limit time.Duration) ([]string, bool) {
	var got []string
	timer := time.NewTimer(limit)
	defer timer.Stop()
	for {
		select {
		case l, ok := <-s.lines:
			if !ok {
				s.dead = true
				return got, false
			}
			if s.Log != nil {
				fmt.Fprintln(s.Log, "; <- "+l)
			}
			if strings.Trim(l, "\"") == sentinel {
				return got, true
			}
			got = append(got, l)
		case <-timer.C:
			return got, false
		}
	}
}

var valRe = regexp.MustCompile(`\(\s*([^\s()]+)\s+(#x[0-9a-fA-F]+|#b[01]+|true|false)\s*\)`)

// Query is one satisfiability question.
type Query struct {
	Asserts []*term.Term
	Values  []*term.Term // terms whose model value is wanted when sat
}

type Answer struct {
	Res    Result
	Values []uint64 // parallel to Query.Values (only when Sat)
	Err    string   // solver error text, if any (Res is then Unknown)
	Sec    float64
}

// Check runs one query in its own push/pop scope.
// Check decides one query. A solver process that does not answer within the wall-clock limit (its
// own time limit plus 20 s - a starved machine or a wedged process) is restarted and the query is
// put to the fresh process once more before the answer is "unknown".
func (s *Solver) Check(q Query) Answer {
	a := s.check1(q)
	if a.Res == Unknown && strings.HasPrefix(a.Err, "solver did not answer within the wall-clock limit") {
		a = s.check1(q)
	}
	return a
}

func (s *Solver) check1(q Query) Answer {
	if s.dead || s.cmd == nil {
		s.restart()
	}
	s.seq++
	t0 := time.Now()
	p := term.NewPrinter(fmt.Sprintf("q%d_", s.seq))
	var refs []string
	for _, a := range q.Asserts {
		refs = append(refs, p.Ref(a))
	}
	var vrefs, vexprs []string
	for i, v := range q.Values {
		vexprs = append(vexprs, p.Ref(v))
		vrefs = append(vrefs, fmt.Sprintf("q%d_v%d", s.seq, i))
	}
	defs := p.Defs()
	// declarations (global, outside the scope)
	for _, v := range p.SortedVars() {
		so := term.SortOf(v)
		nm := term.VarSMTName(v)
		if _, ok := s.declared[nm]; ok {
			continue
		}
		s.declared[nm] = so
		s.send(fmt.Sprintf("(declare-const %s %s)", nm, so))
	}
	s.send("(push 1)")
	for _, d := range defs {
		s.send(d)
	}
	for i, v := range q.Values {
		s.send(fmt.Sprintf("(define-fun %s () %s %s)", vrefs[i], term.SortOf(v), vexprs[i]))
	}
	for _, r := range refs {
		s.send(fmt.Sprintf("(assert %s)", r))
	}
	s.send("(check-sat)")
	sentinel := fmt.Sprintf("done-%d", s.seq)
	s.send(fmt.Sprintf("(echo \"%s\")", sentinel))
	limit := time.Duration(s.TimeoutMs)*time.Millisecond + 20*time.Second
	lines, ok := s.readUntil(sentinel, limit)
	ans := Answer{Res: Unknown}
	if !ok {
		ans.Err = "solver did not answer within the wall-clock limit (restarted)"
		s.restart()
		s.account(&ans, t0)
		return ans
	}
	for _, l := range lines {
		if strings.Contains(l, "(error") || strings.Contains(l, "error:") {
			ans.Err = l
		}
	}
	if ans.Err == "" {
		for _, l := range lines {
			switch strings.TrimSpace(l) {
			case "sat":
				ans.Res = Sat
			case "unsat":
				ans.Res = Unsat
			case "unknown", "timeout":
				ans.Res = Unknown
			}
		}
	}
	if ans.Res == Sat && len(q.Values) > 0 {
		ans.Values = make([]uint64, len(q.Values))
		// chunk get-value requests
		const chunk = 200
		for lo := 0; lo < len(vrefs); lo += chunk {
			hi := lo + chunk
			if hi > len(vrefs) {
				hi = len(vrefs)
			}
			s.seq++
			sent := fmt.Sprintf("done-%d", s.seq)
			s.send("(get-value (" + strings.Join(vrefs[lo:hi], " ") + "))")
			s.send(fmt.Sprintf("(echo \"%s\")", sent))
			ls, ok := s.readUntil(sent, limit)
			if !ok {
				ans.Res = Unknown
				ans.Err = "get-value timed out"
				s.restart()
				s.account(&ans, t0)
				return ans
			}
			txt := strings.Join(ls, " ")
			if strings.Contains(txt, "(error") {
				ans.Res = Unknown
				ans.Err = txt
				break
			}
			byName := map[string]uint64{}
			for _, m := range valRe.FindAllStringSubmatch(txt, -1) {
				byName[m[1]] = parseVal(m[2])
			}
			for i := lo; i < hi; i++ {
				v, ok := byName[vrefs[i]]
				if !ok {
					ans.Res = Unknown
					ans.Err = "get-value: missing " + vrefs[i] + " in: " + truncate(txt, 300)
					break
				}
				ans.Values[i] = v
			}
		}
	}
	if !s.dead {
		s.send("(pop 1)")
	}
	s.account(&ans, t0)
	return ans
}

func truncate(s string, n int) string {
	if len(s) > n {
		return s[:n] + "..."
	}
	return s
}

func (s *Solver) account(a *Answer, t0 time.Time) {
	a.Sec = time.Since(t0).Seconds()
	s.Stats.Queries++
	s.Stats.SolverSec += a.Sec
	if a.Sec > s.Stats.MaxSec {
		s.Stats.MaxSec = a.Sec
	}
	switch a.Res {
	case Sat:
		s.Stats.Sat++
	case Unsat:
		s.Stats.Unsat++
	default:
		s.Stats.Unknown++
	}
}

func parseVal(s string) uint64 {
	switch {
	case s == "true":
		return 1
	case s == "false":
		return 0
	case strings.HasPrefix(s, "#x"):
		v, _ := strconv.ParseUint(s[2:], 16, 64)
		return v
	case strings.HasPrefix(s, "#b"):
		v, _ := strconv.ParseUint(s[2:], 2, 64)
		return v
	}
	return 0
}
