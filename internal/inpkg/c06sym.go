// Package inpkg holds the sources of harnesses that must live INSIDE a package of /repo (they
// construct values with unexported fields). They are injected with go/packages overlays (engine)
// and `go build -overlay` (native replay); /repo itself is never modified.
package inpkg

// C06Sym is injected as /repo/asm/zz_verif_c06.go.
const C06Sym = `package asm

import "verif/vp"

// ZZVerifFinalizeSym runs Finalize from a directly constructed emitter state in which every
// address is symbolic: a 64 KiB code buffer holding n bytes at a bank-contained base, label L0
// (defined iff shape&1) with up to two relative references (shape>>2&3), label L1 (defined iff
// shape&2) with up to one absolute reference (shape>>4&1). Only the representation invariant of
// an emitter that received a one-bank program is assumed.
func ZZVerifFinalizeSym(shape int) {
	nS8, nU16 := shape>>2&3, shape>>4&1
	code := vp.Bytes("code", 0x10000)
	shadow := vp.Bytes("code", 0x10000)
	n := vp.U32("n")
	base := vp.U32("base")
	vp.Assume(n >= 1 && n <= 0x10000 && base < 1<<24 && base&0xFFFF+n <= 0x10000)
	a := &Emitter{code: code, n: int(n), base: base, address: base + n,
		labels: map[string]uint32{}, danglingS8: map[string][]uint32{}, danglingU16: map[string][]uint32{}}
	var l0, l1 uint32
	if shape&1 != 0 {
		l0 = vp.U32("label0")
		vp.Assume(l0 >= base && l0 <= base+n)
		a.labels["L0"] = l0
	}
	if shape&2 != 0 {
		l1 = vp.U32("label1")
		vp.Assume(l1 >= base && l1 <= base+n)
		a.labels["L1"] = l1
	}
	var s8 []uint32
	for i := 0; i < nS8; i++ {
		r := vp.U32("s8ref" + string(rune('0'+i)))
		vp.Assume(n >= 2 && r >= base+1 && r <= base+n-1) // the operand byte of a two-byte branch
		for _, q := range s8 {
			vp.Assume(q != r)
		}
		s8 = append(s8, r)
	}
	if nS8 > 0 {
		a.danglingS8["L0"] = s8
	}
	var u16 []uint32
	for i := 0; i < nU16; i++ {
		u := vp.U32("u16ref" + string(rune('0'+i)))
		vp.Assume(n >= 3 && u >= base+1 && u <= base+n-2) // the two operand bytes of a three-byte jump
		for _, q := range s8 {
			vp.Assume(q != u && q != u+1)
		}
		u16 = append(u16, u)
	}
	if nU16 > 0 {
		a.danglingU16["L1"] = u16
	}
	// expected verdict
	expectErr := (nS8 > 0 && shape&1 == 0) || (nU16 > 0 && shape&2 == 0)
	inRange := true
	if shape&1 != 0 {
		for _, r := range s8 {
			d := int64(l0) - int64(r+1)
			if d > 127 || d < -128 {
				inRange = false
			}
		}
	}
	err := a.Finalize()
	vp.Assert("finalize-fails-exactly-when-a-reference-is-unresolved-or-out-of-range", (err != nil) == (expectErr || !inRange))
	vp.Assert("finalize-keeps-length-pc-and-base", a.n == int(n) && a.address == base+n && a.base == base)
	if err == nil && !expectErr && inRange {
		for _, r := range s8 {
			shadow[r-base] = byte(int8(int64(l0) - int64(r+1)))
		}
		for _, u := range u16 {
			shadow[u-base] = byte(l1)
			shadow[u-base+1] = byte(l1 >> 8)
		}
		vp.Assert("every-reference-resolved-and-nothing-else-changed", vp.BytesEqual(a.code, shadow))
		vp.Reach("resolved")
		return
	}
	// failure (or unexpected success): no byte other than operand bytes of references may differ
	i := vp.U32("probe")
	vp.Assume(i < 0x10000)
	for _, r := range s8 {
		vp.Assume(i != r-base)
	}
	for _, u := range u16 {
		vp.Assume(i != u-base && i != u-base+1)
	}
	vp.Assert("only-operand-bytes-of-label-references-change", a.code[i] == shadow[i])
	vp.Reach("failed")
}
`

// C06Reg is injected as /verif/harness/all/zz_c06sym.go.
const C06Reg = `package all

import "github.com/alttpo/snes/asm"

func init() {
	Registry["github.com/alttpo/snes/asm.ZZVerifFinalizeSym"] = func(a []int64) { asm.ZZVerifFinalizeSym(int(a[0])) }
}
`
