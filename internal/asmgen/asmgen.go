// Package asmgen derives, on every run, the per-method harness entry points for the asm
// properties from the method set of *asm.Emitter (go/types) and the 65816 opcode matrix
// (spec/w65816): (mnemonic, addressing mode, operand layout, width guard) come from the
// method NAME and SIGNATURE only - never from the method body.
package asmgen

import (
	"fmt"
	"go/types"
	"os"
	"sort"
	"strings"

	"golang.org/x/tools/go/packages"

	"verif/spec/w65816"
)

type Method struct {
	Name     string
	Params   []string // Go types of the parameters
	Kind     string   // "instr", "label", "other", "unclassified"
	Mn       w65816.Mn
	Mode     w65816.Mode
	Opcode   int
	Guard    string // asmh.Guard* constant name
	Operand  []string
	Len      int
	Why      string // for unclassified
	BranchFl int    // flag index (NVMXDIZC order) that decides a branch, -1 if none
	BranchNT int    // flag value that keeps the branch NOT taken
	Transfer bool   // unconditional control transfer or stack flag restore (outside C07's straight-line claim)
}

var nonEmitting = map[string]bool{"Clone": true, "Append": true, "WriteTextTo": true, "WriteHexTo": true, "Finalize": true, "Label": true,
	"GetLabel": true, "Cap": true, "Len": true, "Bytes": true, "PC": true, "SetBase": true, "GetBase": true, "Comment": true, "EmitBytes": true,
	"Flags": true, "IsX16bit": true, "IsM16bit": true, "AssumeREP": true, "AssumeSEP": true}

var mnByName = func() map[string]w65816.Mn {
	m := map[string]w65816.Mn{}
	for i, n := range w65816.MnNames {
		m[strings.ToUpper(n)] = w65816.Mn(i)
	}
	return m
}()

func findOpcode(mn w65816.Mn, mode w65816.Mode) int {
	for op, e := range w65816.Table {
		if e.Mn == mn && e.Mode == mode {
			return op
		}
	}
	return -1
}

var xGroup = map[w65816.Mn]bool{w65816.LDX: true, w65816.LDY: true, w65816.CPX: true, w65816.CPY: true}

var branches = map[w65816.Mn][2]int{ // flag index in NVMXDIZC order, value that keeps it NOT taken
	w65816.BNE: {6, 1}, w65816.BEQ: {6, 0}, w65816.BPL: {0, 1}, w65816.BMI: {0, 0},
	w65816.BCC: {7, 1}, w65816.BCS: {7, 0}, w65816.BVC: {1, 1}, w65816.BVS: {1, 0},
}

// Load lists and classifies the exported methods of *asm.Emitter.
func Load(dir string) ([]Method, error) {
	cfg := &packages.Config{Mode: packages.NeedTypes | packages.NeedName | packages.NeedImports | packages.NeedDeps, Dir: dir,
		Env: append(os.Environ(), "GOFLAGS=-mod=mod", "GOPROXY=off", "GOSUMDB=off", "GOTOOLCHAIN=local")}
	pkgs, err := packages.Load(cfg, "github.com/alttpo/snes/asm")
	if err != nil {
		return nil, err
	}
	if len(pkgs) != 1 || len(pkgs[0].Errors) > 0 {
		return nil, fmt.Errorf("loading asm package: %v", pkgs[0].Errors)
	}
	obj := pkgs[0].Types.Scope().Lookup("Emitter")
	if obj == nil {
		return nil, fmt.Errorf("asm.Emitter not found")
	}
	ms := types.NewMethodSet(types.NewPointer(obj.Type()))
	var out []Method
	for i := 0; i < ms.Len(); i++ {
		fn := ms.At(i).Obj().(*types.Func)
		if !fn.Exported() {
			continue
		}
		sig := fn.Type().(*types.Signature)
		m := Method{Name: fn.Name(), BranchFl: -1}
		for j := 0; j < sig.Params().Len(); j++ {
			m.Params = append(m.Params, types.TypeString(sig.Params().At(j).Type(), func(p *types.Package) string { return p.Name() }))
		}
		classify(&m)
		out = append(out, m)
	}
	sort.Slice(out, func(i, j int) bool { return out[i].Name < out[j].Name })
	return out, nil
}

func classify(m *Method) {
	if nonEmitting[m.Name] {
		m.Kind = "other"
		return
	}
	parts := strings.Split(m.Name, "_")
	mn, ok := mnByName[parts[0]]
	if !ok {
		m.Kind, m.Why = "unclassified", "name does not start with a 65816 mnemonic"
		return
	}
	m.Mn = mn
	suffix := strings.Join(parts[1:], "_")
	ptypes := strings.Join(m.Params, ",")
	set := func(mode w65816.Mode, operand ...string) {
		m.Kind, m.Mode, m.Operand = "instr", mode, operand
	}
	lo16 := func(a string) []string { return []string{"byte(" + a + ")", "byte(" + a + " >> 8)"} }
	lo24 := func(a string) []string {
		return []string{"byte(" + a + ")", "byte(" + a + " >> 8)", "byte(" + a + " >> 16)"}
	}
	immMode := w65816.ImmM
	guardReg := "M"
	if xGroup[mn] {
		immMode, guardReg = w65816.ImmX, "X"
	}
	switch {
	case ptypes == "string": // label reference
		m.Kind = "label"
		if mn == w65816.JMP {
			m.Mode, m.Len = w65816.Abs, 3
		} else {
			m.Mode, m.Len = w65816.Rel8, 2
		}
	case mn == w65816.MVN || mn == w65816.MVP:
		if ptypes != "uint8,uint8" {
			m.Kind, m.Why = "unclassified", "block move expects (dest, src uint8)"
			return
		}
		set(w65816.Block, "a0", "a1") // object code: destination bank, then source bank
	case mn == w65816.REP || mn == w65816.SEP:
		set(w65816.Imm8, "byte(a0)")
	case mn == w65816.WDM || mn == w65816.COP || mn == w65816.BRK:
		set(w65816.Imm8, "a0")
	case (mn == w65816.JSL || mn == w65816.JML) && suffix == "" && ptypes == "uint32":
		set(w65816.Long, lo24("a0")...)
	case mn == w65816.JSL && suffix == "lhb" && ptypes == "uint8,uint8,uint8":
		set(w65816.Long, "a0", "a1", "a2")
	case mn == w65816.JMP && suffix == "abs_imm16_w" && ptypes == "uint16":
		set(w65816.Abs, lo16("a0")...)
	case mn == w65816.JMP && suffix == "indirect" && ptypes == "uint16":
		set(w65816.AbsInd, lo16("a0")...)
	case suffix == "" && ptypes == "":
		if findOpcode(mn, w65816.Acc) >= 0 {
			set(w65816.Acc)
		} else {
			set(w65816.Imp)
		}
	case suffix == "imm8_b" && ptypes == "uint8":
		set(immMode, "a0")
		m.Guard = "asmh.Guard" + guardReg + "8"
	case suffix == "imm16_w" && ptypes == "uint16":
		set(immMode, lo16("a0")...)
		m.Guard = "asmh.Guard" + guardReg + "16"
	case suffix == "imm16_lh" && ptypes == "uint8,uint8":
		set(immMode, "a0", "a1")
		m.Guard = "asmh.Guard" + guardReg + "16"
	case suffix == "imm8" && ptypes == "int8":
		set(w65816.Rel8, "byte(a0)")
	case suffix == "long" && ptypes == "uint32":
		set(w65816.Long, lo24("a0")...)
	case suffix == "long_x" && ptypes == "uint32":
		set(w65816.LongX, lo24("a0")...)
	case suffix == "abs" && ptypes == "uint16":
		set(w65816.Abs, lo16("a0")...)
	case suffix == "abs_x" && ptypes == "uint16":
		set(w65816.AbsX, lo16("a0")...)
	case suffix == "abs_y" && ptypes == "uint16":
		set(w65816.AbsY, lo16("a0")...)
	case suffix == "dp" && ptypes == "uint8":
		set(w65816.Dp, "a0")
	case suffix == "dp_x" && ptypes == "uint8":
		set(w65816.DpX, "a0")
	case suffix == "dp_y" && ptypes == "uint8":
		set(w65816.DpY, "a0")
	default:
		m.Kind, m.Why = "unclassified", fmt.Sprintf("suffix %q with parameters (%s) is not covered by the naming convention", suffix, ptypes)
		return
	}
	if m.Guard == "" {
		m.Guard = "asmh.GuardNone"
	}
	m.Opcode = findOpcode(mn, m.Mode)
	if m.Opcode < 0 {
		m.Kind, m.Why = "unclassified", fmt.Sprintf("the 65816 has no %s with addressing mode %s", w65816.MnNames[mn], w65816.ModeNames[m.Mode])
		return
	}
	if m.Kind == "instr" {
		m.Len = 1 + len(m.Operand)
	}
	if b, ok := branches[mn]; ok {
		m.BranchFl, m.BranchNT = b[0], b[1]
	}
	switch mn {
	case w65816.BRA, w65816.BRL, w65816.JMP, w65816.JML, w65816.JSR, w65816.JSL, w65816.RTS, w65816.RTL, w65816.RTI,
		w65816.PLP, w65816.BRK, w65816.COP:
		m.Transfer = true
	}
}

func goArgType(t string) (vpCall string, conv string) {
	switch t {
	case "uint8":
		return "vp.U8", ""
	case "int8":
		return "vp.U8", "int8"
	case "uint16":
		return "vp.U16", ""
	case "uint32":
		return "vp.U32", ""
	case "asm.Flags":
		return "vp.U8", "asm.Flags"
	}
	return "", ""
}

// Generate returns the source of verif/harness/asmgen (per-method entry points) and of the
// registration file added to verif/harness/all.
func Generate(ms []Method) (gen string, gen7 string, reg string, err error) {
	var g, g7, r strings.Builder
	g7.WriteString("// Code generated by internal/asmgen from the method set of *asm.Emitter. DO NOT EDIT.\n\npackage asmgen7\n\nimport (\n\t\"github.com/alttpo/snes/asm\"\n\n\t\"verif/harness/asmh\"\n\t\"verif/harness/asmh7\"\n\t\"verif/vp\"\n)\n\nvar _ = asm.Carry\n\n")
	g.WriteString("// Code generated by internal/asmgen from the method set of *asm.Emitter. DO NOT EDIT.\n\npackage asmgen\n\nimport (\n\t\"github.com/alttpo/snes/asm\"\n\n\t\"verif/harness/asmh\"\n\t\"verif/vp\"\n)\n\nvar _ = asm.Carry\n\n")
	r.WriteString("// Code generated by internal/asmgen. DO NOT EDIT.\n\npackage all\n\nimport (\n\t\"verif/harness/asmgen\"\n\t\"verif/harness/asmgen7\"\n)\n\nfunc init() {\n")
	for _, m := range ms {
		if m.Kind != "instr" && m.Kind != "label" {
			continue
		}
		var decl, call []string
		if m.Kind == "label" {
			call = []string{`"L1"`}
		}
		for i, p := range m.Params {
			if m.Kind == "label" {
				break
			}
			vpc, conv := goArgType(p)
			if vpc == "" {
				return "", "", "", fmt.Errorf("method %s: parameter type %s not supported by the generator", m.Name, p)
			}
			v := fmt.Sprintf("a%d", i)
			decl = append(decl, fmt.Sprintf("\t%s := %s(\"%s\")\n", v, vpc, v))
			if conv != "" {
				call = append(call, conv+"("+v+")")
			} else {
				call = append(call, v)
			}
		}
		callS := fmt.Sprintf("%s(%s)", m.Name, strings.Join(call, ", "))
		operand := "nil"
		if len(m.Operand) > 0 {
			operand = "[]byte{" + strings.Join(m.Operand, ", ") + "}"
		}
		tracks := 0
		if m.Mn == w65816.SEP {
			tracks = 1
		} else if m.Mn == w65816.REP {
			tracks = 2
		}
		spec := fmt.Sprintf("asmh.Spec{Opcode: 0x%02X, Operand: %s, Guard: %s, Label: %v, PadLen: %d, Tracks: %d}", m.Opcode, operand, m.Guard, m.Kind == "label", m.Len-1, tracks)
		// C03
		fmt.Fprintf(&g, "// C03_%s: %s %s, opcode $%02X, %d bytes.\nfunc C03_%s() {\n\th := asmh.New()\n%s\trefused := vp.Try(func() { h.E.%s })\n\th.Check(refused, %s)\n}\n\n",
			m.Name, w65816.MnNames[m.Mn], w65816.ModeNames[m.Mode], m.Opcode, m.Len, m.Name, strings.Join(decl, ""), callS, spec)
		fmt.Fprintf(&r, "\treg(\"asmgen\", \"C03_%s\", func(a []int64) { asmgen.C03_%s() })\n", m.Name, m.Name)
		// C07 (straight-line instructions only)
		if m.Kind == "instr" {
			fmt.Fprintf(&g7, "func C07_%s(cpu int) {\n\th := asmh7.New(cpu)\n%s\tpre := h.E.Flags()\n\trefused := vp.Try(func() { h.E.%s })\n\tasmh.CheckGuard(refused, pre, %s)\n\tif refused {\n\t\treturn\n\t}\n\th.Exec(pre, %d, %d, %v)\n}\n\n",
				m.Name, strings.Join(decl, ""), callS, m.Guard, m.BranchFl, m.BranchNT, m.Mn == w65816.MVN || m.Mn == w65816.MVP)
			fmt.Fprintf(&r, "\treg(\"asmgen7\", \"C07_%s\", func(a []int64) { asmgen7.C07_%s(int(a[0])) })\n", m.Name, m.Name)
		}
		// C19
		guardExpr := "false"
		if m.Guard != "asmh.GuardNone" {
			guardExpr = fmt.Sprintf("asmh.Refuses(%s, h.E.Flags())", m.Guard)
		}
		label2 := ""
		if m.Kind == "label" {
			label2 = ""
		}
		fmt.Fprintf(&g, "func C19_%s(cp int, pre int) {\n\th := asmh.New19(cp, pre)\n%s\tguard := %s\n\tr1 := vp.Try(func() { h.E.%s })\n\tr2 := vp.Try(func() { h.Dry.%s })\n\th.Check(r1, r2, %d, guard)\n%s}\n\n",
			m.Name, strings.Join(decl, ""), guardExpr, callS, callS, m.Len, label2)
		fmt.Fprintf(&r, "\treg(\"asmgen\", \"C19_%s\", func(a []int64) { asmgen.C19_%s(int(a[0]), int(a[1])) })\n", m.Name, m.Name)
	}
	r.WriteString("}\n")
	return g.String(), g7.String(), r.String(), nil
}
