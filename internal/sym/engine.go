package sym

import (
	"fmt"
	"go/types"
	"os"
	"sort"
	"strings"
	"time"

	"golang.org/x/tools/go/packages"
	"golang.org/x/tools/go/ssa"
	"golang.org/x/tools/go/ssa/ssautil"

	"verif/internal/smt"
	"verif/internal/term"
)

const RepoPath = "github.com/alttpo/snes"

type Stats struct {
	Instrs  int
	Forks   int
	Merges  int
	Pruned  int
	Objects int
	Paths   int
}

type Engine struct {
	prog    *ssa.Program
	pkgs    []*packages.Package
	ssaPkgs map[string]*ssa.Package

	Solver *smt.Solver
	// FallbackKinds are solver back ends tried in order when the primary answers unknown.
	FallbackKinds []string
	fallbacks     map[string]*smt.Solver

	MaxSteps    int
	Unwind      int
	SymUnwind   int // bound on symbolically feasible back edges along one path
	JobWall     time.Duration // wall-clock limit per job (a job that exceeds it is inconclusive)
	jobStart    time.Time
	PermuteMaps bool
	NoMerge     bool
	NoPCRestore bool
	Concrete    *ConcreteSource // non-nil: vp inputs are concrete (conformance mode)

	nextObj    int
	objs       map[int]*Object
	globals    map[*ssa.Global]*Object
	fnInfos    map[*ssa.Function]*fnInfo
	constCache map[*ssa.Const]Value
	errMsgs    map[int]string
	base       *State
	stats      Stats
	feasCache  map[int]bool
	intr       map[string]intrinsic
	funcsSeen  map[string]bool // functions of the repo executed (evidence)
	modelsHit  map[string]bool // stdlib models used (evidence)
	stdGlobal  map[string]bool // stdlib globals read without init (evidence/assumption)
	errStrT    types.Type
	job        *jobCtx
	// restrictSeq counts events that restrict the set of inputs on a path (assumptions, structural
	// choices, key-match forks); regions during which it did not move keep their entry condition.
	restrictSeq      int
	primaryStruggles int
	oneBuf           [1]cont
	Findings         []Finding
	Verbose          bool
}

// Load builds the SSA program for the given package patterns (resolved from dir, normally /verif).
func Load(dir string, overlay map[string][]byte, patterns ...string) (*Engine, error) {
	cfg := &packages.Config{
		Mode:    packages.LoadAllSyntax,
		Dir:     dir,
		Overlay: overlay,
		Env:     append(os.Environ(), "GOFLAGS=-mod=mod", "GOPROXY=off", "GOSUMDB=off", "GOTOOLCHAIN=local"),
	}
	pkgs, err := packages.Load(cfg, patterns...)
	if err != nil {
		return nil, err
	}
	var errs []string
	packages.Visit(pkgs, nil, func(p *packages.Package) {
		for _, e := range p.Errors {
			errs = append(errs, e.Error())
		}
	})
	if len(errs) > 0 {
		return nil, fmt.Errorf("package load errors:\n%s", strings.Join(errs, "\n"))
	}
	prog, _ := ssautil.AllPackages(pkgs, ssa.InstantiateGenerics)
	prog.Build()
	e := &Engine{
		prog: prog, pkgs: pkgs, ssaPkgs: map[string]*ssa.Package{},
		MaxSteps: 400_000_000, Unwind: 4_000_000, SymUnwind: 800, JobWall: 20 * time.Minute,
		objs: map[int]*Object{}, globals: map[*ssa.Global]*Object{}, fnInfos: map[*ssa.Function]*fnInfo{},
		errMsgs: map[int]string{}, feasCache: map[int]bool{}, constCache: map[*ssa.Const]Value{},
		funcsSeen: map[string]bool{}, modelsHit: map[string]bool{}, stdGlobal: map[string]bool{},
	}
	for _, p := range prog.AllPackages() {
		e.ssaPkgs[p.Pkg.Path()] = p
	}
	if ep := e.ssaPkgs["errors"]; ep != nil {
		if t := ep.Type("errorString"); t != nil {
			e.errStrT = types.NewPointer(t.Type())
		}
	}
	e.registerIntrinsics()
	return e, nil
}

func ownPkg(path string) bool {
	return path == RepoPath || strings.HasPrefix(path, RepoPath+"/") || path == "verif" || strings.HasPrefix(path, "verif/")
}

func repoPkg(path string) bool {
	return path == RepoPath || strings.HasPrefix(path, RepoPath+"/")
}

// Init creates the base state: all globals of own packages, package initialisers executed.
func (e *Engine) Init() (err error) {
	defer func() {
		if r := recover(); r != nil {
			if u, ok := r.(unsupportedErr); ok {
				err = fmt.Errorf("init: %v", u)
				return
			}
			panic(r)
		}
	}()
	st := newState()
	e.base = st
	var own []*ssa.Package
	for path, p := range e.ssaPkgs {
		if ownPkg(path) {
			own = append(own, p)
		}
	}
	sort.Slice(own, func(i, j int) bool { return own[i].Pkg.Path() < own[j].Pkg.Path() })
	for _, p := range own {
		for _, m := range p.Members {
			if g, ok := m.(*ssa.Global); ok {
				e.globalObj(st, g)
			}
		}
	}
	for _, p := range own {
		if f := p.Func("init"); f != nil {
			outs := e.call(st, f, nil, nil, 0)
			if len(outs) != 1 || outs[0].Panic != nil {
				return fmt.Errorf("init of %s did not complete on one path", p.Pkg.Path())
			}
			st = outs[0].St
		}
	}
	// mark everything reachable from repo globals as global storage
	for g, o := range e.globals {
		if g.Pkg == nil || !repoPkg(g.Pkg.Pkg.Path()) || strings.HasPrefix(g.Name(), "init$") {
			continue
		}
		e.markGlobal(st, st.heap[o.ID], g.Pkg.Pkg.Path()+"."+g.Name(), map[int]bool{})
	}
	st.written = map[int]bool{}
	e.base = st
	return nil
}

func (e *Engine) markGlobal(st *State, v Value, name string, seen map[int]bool) {
	mark := func(o *Object) {
		if o == nil || seen[o.ID] {
			return
		}
		seen[o.ID] = true
		if o.Global == "" {
			o.Global = "reachable from " + name
		}
		if o.ID < len(st.heap) && st.heap[o.ID] != nil {
			e.markGlobal(st, st.heap[o.ID], name, seen)
		}
	}
	switch x := v.(type) {
	case *Ptr:
		if x != nil {
			mark(x.Obj)
		}
	case *SliceV:
		if x.Base != nil {
			mark(x.Base.Obj)
		}
	case *MapV:
		mark(x.Obj)
	case *MapData:
		for i := range x.K {
			e.markGlobal(st, x.K[i], name, seen)
			e.markGlobal(st, x.V[i], name, seen)
		}
	case *StructV:
		for _, f := range x.F {
			e.markGlobal(st, f, name, seen)
		}
	case *ArrV:
		for _, f := range x.E {
			e.markGlobal(st, f, name, seen)
		}
	case *IfaceV:
		if x.T != nil {
			e.markGlobal(st, x.V, name, seen)
		}
	case *FuncV:
		for _, b := range x.Bind {
			e.markGlobal(st, b, name, seen)
		}
	}
}

var opaqueErrors = map[string]string{
	"io.EOF":              "EOF",
	"io.ErrUnexpectedEOF": "unexpected EOF",
	"io.ErrShortWrite":    "short write",
	"io.ErrShortBuffer":   "short buffer",
	"io.ErrNoProgress":    "multiple Read calls return no data or error",
}

func (e *Engine) globalObj(st *State, g *ssa.Global) *Object {
	if o, ok := e.globals[g]; ok {
		return o
	}
	t := g.Type().Underlying().(*types.Pointer).Elem()
	full := g.Name()
	if g.Pkg != nil {
		full = g.Pkg.Pkg.Path() + "." + g.Name()
	}
	e.nextObj++
	o := &Object{ID: e.nextObj, Type: t, Site: "global " + full}
	e.objs[o.ID] = o
	if msg, ok := opaqueErrors[full]; ok {
		eo := e.newErrorObject(e.base, msg)
		o.Init = &IfaceV{T: e.errStrT, V: &Ptr{Obj: eo}}
		eo.Opaque = full
	} else {
		o.Init = e.zero(t)
		if g.Pkg != nil && !ownPkg(g.Pkg.Pkg.Path()) && !strings.HasPrefix(g.Name(), "init$") {
			e.stdGlobal[full] = true
		}
	}
	if g.Pkg != nil && repoPkg(g.Pkg.Pkg.Path()) && !strings.HasPrefix(g.Name(), "init$") {
		o.Global = full
	}
	e.globals[g] = o
	return o
}

// newErrorObject allocates an errors.errorString-shaped object that every state can see.
func (e *Engine) newErrorObject(st *State, msg string) *Object {
	e.nextObj++
	o := &Object{ID: e.nextObj, Type: types.Typ[types.String], Site: "error " + msg}
	o.Init = &StructV{F: []Value{&StrV{S: msg}}}
	e.objs[o.ID] = o
	e.errMsgs[o.ID] = msg
	return o
}

func (e *Engine) noteFunction(fn *ssa.Function) {
	if fn.Pkg != nil && repoPkg(fn.Pkg.Pkg.Path()) {
		e.funcsSeen[fn.String()] = true
	}
}

// feasible asks the solver whether the path condition is satisfiable (cached).
// Unknown answers count as feasible (the path is kept).
func (e *Engine) feasible(st *State) bool {
	pc := st.pcTerm()
	if pc == term.True {
		return true
	}
	if pc == term.False {
		return false
	}
	if r, ok := e.feasCache[pc.ID]; ok {
		return r
	}
	ans := e.Solver.Check(smt.Query{Asserts: []*term.Term{pc}})
	r := ans.Res != smt.Unsat
	e.feasCache[pc.ID] = r
	return r
}

// ---------------------------------------------------------------- jobs

type Job struct {
	ID   string  `json:"id"`
	Pkg  string  `json:"pkg"`
	Func string  `json:"func"`
	Args []int64 `json:"args"`
	Seed *uint64 `json:"seed,omitempty"` // non-nil: conformance run with concrete pseudo-random inputs
	// Model, when set, makes the run concrete with exactly these input values (triage of a solver model)
	Model *ModelJSON `json:"model,omitempty"`
}

type ObStatus string

const (
	ObTrivial      ObStatus = "trivial"      // closed by the simplifier (condition folded to true)
	ObDischarged   ObStatus = "discharged"   // solver: unsat
	ObViolated     ObStatus = "violated"     // solver: sat (model attached)
	ObKnown        ObStatus = "known"        // violated, inside a listed known-finding region
	ObInconclusive ObStatus = "inconclusive" // unknown / error
)

type ObResult struct {
	Label   string            `json:"label"`
	Status  ObStatus          `json:"status"`
	Sec     float64           `json:"sec"`
	Model   *ModelJSON        `json:"model,omitempty"`
	Note    string            `json:"note,omitempty"`
	Finding string            `json:"finding,omitempty"`
	Tags    map[string]uint64 `json:"tags,omitempty"`
	Size    int               `json:"size,omitempty"`
	Solver  string            `json:"solver,omitempty"`
}

type ModelJSON struct {
	Scalars map[string]uint64            `json:"scalars"`
	Arrays  map[string]map[string]uint64 `json:"arrays"`
	Choices []Choice                     `json:"choices,omitempty"`
}

type JobResult struct {
	Job          Job        `json:"job"`
	Obligations  []ObResult `json:"obligations"`
	Reached      []string   `json:"reached"`
	Paths        int        `json:"paths"`
	Inconclusive string     `json:"inconclusive,omitempty"`
	Assumptions  []string   `json:"assumptions,omitempty"`
	Stats        Stats      `json:"stats"`
	WallSec      float64    `json:"wall_sec"`
	Observations [][]ObsOut `json:"observations,omitempty"`
}

type ObsOut struct {
	Name string `json:"n"`
	Val  string `json:"v"`
}

type jobCtx struct {
	res     *JobResult
	reached map[string]bool
	assumes map[string]bool
	chooseN int
}

// Finding is an open known finding: obligation label (with optional job prefix) and region tags.
type Finding struct {
	Property   string   `json:"property"`
	Status     string   `json:"status"`
	Obligation string   `json:"obligation"` // "<job-id-glob>::<label>" ; job part may contain * wildcards
	Region     []string `json:"region"`
	What       string   `json:"what"`
	Commit     string   `json:"commit,omitempty"`
	Why        string   `json:"why_not_fixed,omitempty"`
}

func (e *Engine) findFunc(pkg, name string) *ssa.Function {
	p := e.ssaPkgs[pkg]
	if p == nil {
		return nil
	}
	return p.Func(name)
}

func (e *Engine) RunJob(j Job) (res JobResult) {
	t0 := time.Now()
	res.Job = j
	jc := &jobCtx{res: &res, reached: map[string]bool{}, assumes: map[string]bool{}}
	e.job = jc
	e.Concrete = nil
	if j.Seed != nil {
		e.Concrete = &ConcreteSource{Seed: *j.Seed, Random: true}
	}
	if j.Model != nil {
		cs := &ConcreteSource{Fixed: map[string]uint64{}, Arrays: map[string]map[uint64]uint64{}}
		for k, v := range j.Model.Scalars {
			cs.Fixed[k] = v
		}
		for name, m := range j.Model.Arrays {
			cs.Arrays[name] = map[uint64]uint64{}
			for k, v := range m {
				var ix uint64
				fmt.Sscan(k, &ix)
				cs.Arrays[name][ix] = v
			}
		}
		for _, c := range j.Model.Choices {
			cs.Fixed["choose:"+c.Name] = uint64(c.Val)
		}
		e.Concrete = cs
	}
	s0 := e.stats
	defer func() {
		if r := recover(); r != nil {
			if u, ok := r.(unsupportedErr); ok {
				res.Inconclusive = u.Error()
			} else {
				res.Inconclusive = fmt.Sprintf("engine panic: %v", r)
				if e.Verbose {
					panic(r)
				}
			}
		}
		for k := range jc.reached {
			res.Reached = append(res.Reached, k)
		}
		sort.Strings(res.Reached)
		for k := range jc.assumes {
			res.Assumptions = append(res.Assumptions, k)
		}
		sort.Strings(res.Assumptions)
		res.Stats = Stats{Instrs: e.stats.Instrs - s0.Instrs, Forks: e.stats.Forks - s0.Forks, Merges: e.stats.Merges - s0.Merges,
			Pruned: e.stats.Pruned - s0.Pruned, Objects: e.stats.Objects - s0.Objects}
		res.WallSec = time.Since(t0).Seconds()
	}()
	fn := e.findFunc(j.Pkg, j.Func)
	if fn == nil {
		res.Inconclusive = "harness function not found: " + j.Pkg + "." + j.Func
		return
	}
	if len(j.Args) != len(fn.Params) {
		res.Inconclusive = "harness arity mismatch"
		return
	}
	args := make([]Value, len(j.Args))
	for i, a := range j.Args {
		w, _, ok := intWidth(fn.Params[i].Type())
		if ok {
			args[i] = term.Const(w, uint64(a))
		} else if isBoolType(fn.Params[i].Type()) {
			args[i] = term.Bool(a != 0)
		} else {
			res.Inconclusive = "harness parameter type not supported"
			return
		}
	}
	st := e.base.fork()
	st.written = map[int]bool{}
	st.steps = 0
	st.symBack = 0
	e.jobStart = time.Now()
	outs := e.call(st, fn, args, nil, 1)
	res.Paths = len(outs)
	for _, o := range outs {
		if o.Panic != nil {
			// an uncaught panic at harness level is an obligation of its own
			e.checkObligation(o.St, "no-unexpected-panic", term.False, fmt.Sprintf("%s at %s", o.Panic.Msg, o.Panic.Site))
		}
		e.checkGlobalWrites(o.St)
		if e.Concrete != nil || os.Getenv("VERIF_DEBUG_OBS") != "" {
			var row []ObsOut
			for _, ob := range o.St.obs {
				row = append(row, ObsOut{ob.Name, renderObs(o.St, ob.Val)})
			}
			res.Observations = append(res.Observations, row)
		}
	}
	return
}

func (e *Engine) checkGlobalWrites(st *State) {
	var bad []string
	for id := range st.written {
		if o := e.objs[id]; o != nil && o.Global != "" {
			bad = append(bad, o.Global)
		}
	}
	sort.Strings(bad)
	if len(bad) == 0 {
		e.recordOb(ObResult{Label: "no-write-to-package-state", Status: ObTrivial})
		return
	}
	e.checkObligation(st, "no-write-to-package-state", term.False, "writes to "+strings.Join(bad, ", "))
}

func (e *Engine) recordOb(o ObResult) {
	e.job.res.Obligations = append(e.job.res.Obligations, o)
}

// checkObligation decides pc => cond.
func (e *Engine) checkObligation(st *State, label string, cond *term.Term, note string) {
	if cond == term.True {
		e.recordOb(ObResult{Label: label, Status: ObTrivial, Note: note})
		return
	}
	pc := st.pcTerm()
	neg := term.Not(cond)
	goal := term.And(pc, neg)
	if goal == term.False {
		e.recordOb(ObResult{Label: label, Status: ObTrivial, Note: note})
		return
	}
	// known findings for this obligation
	var fs []Finding
	for _, f := range e.Findings {
		if f.Status == "open" && matchOb(f.Obligation, e.job.res.Job.ID, label) {
			fs = append(fs, f)
		}
	}
	if len(fs) > 0 {
		// any violation outside every listed region?
		outside := []*term.Term{goal}
		for _, f := range fs {
			r, ok := e.regionTerm(st, f.Region)
			if !ok {
				e.recordOb(ObResult{Label: label, Status: ObInconclusive, Note: "known finding refers to an undefined tag: " + strings.Join(f.Region, ",")})
				return
			}
			outside = append(outside, term.Not(r))
		}
		e.solveOb(st, label, term.And(outside...), note, "")
		for _, f := range fs {
			r, _ := e.regionTerm(st, f.Region)
			e.solveOb(st, label, term.And(goal, r), note, f.What)
		}
		return
	}
	e.solveOb(st, label, goal, note, "")
}

func matchOb(pat, job, label string) bool {
	jp, lp := "*", pat
	if i := strings.Index(pat, "::"); i >= 0 {
		jp, lp = pat[:i], pat[i+2:]
	}
	return glob(jp, job) && glob(lp, label)
}

func glob(pat, s string) bool {
	if pat == "*" {
		return true
	}
	parts := strings.Split(pat, "*")
	if len(parts) == 1 {
		return pat == s
	}
	if !strings.HasPrefix(s, parts[0]) {
		return false
	}
	s = s[len(parts[0]):]
	for i := 1; i < len(parts)-1; i++ {
		k := strings.Index(s, parts[i])
		if k < 0 {
			return false
		}
		s = s[k+len(parts[i]):]
	}
	return strings.HasSuffix(s, parts[len(parts)-1])
}

func (e *Engine) regionTerm(st *State, tags []string) (*term.Term, bool) {
	cs := []*term.Term{}
	for _, t := range tags {
		neg := strings.HasPrefix(t, "!")
		tt, ok := st.tags[strings.TrimPrefix(t, "!")]
		if !ok {
			return nil, false
		}
		if neg {
			tt = term.Not(tt)
		}
		cs = append(cs, tt)
	}
	return term.And(cs...), true
}

func (e *Engine) solveOb(st *State, label string, goal *term.Term, note, finding string) {
	if goal == term.False {
		if finding == "" {
			e.recordOb(ObResult{Label: label, Status: ObTrivial, Note: note})
		}
		return
	}
	roots := []*term.Term{goal}
	for _, t := range st.tags {
		roots = append(roots, t)
	}
	vars := term.Vars(roots)
	var values []*term.Term
	type slot struct {
		arr *term.Term
		idx *term.Term
	}
	var scal []*term.Term
	for _, v := range vars {
		if !v.Arr {
			scal = append(scal, v)
			values = append(values, v)
		}
	}
	sels := term.CollectSelects(roots)
	var slots []slot
	var arrs []*term.Term
	for a := range sels {
		arrs = append(arrs, a)
	}
	sort.Slice(arrs, func(i, j int) bool { return arrs[i].Name < arrs[j].Name })
	for _, a := range arrs {
		for _, ix := range sels[a] {
			slots = append(slots, slot{a, ix})
			values = append(values, ix, term.Select(a, ix))
		}
	}
	var tagNames []string
	for k := range st.tags {
		tagNames = append(tagNames, k)
	}
	sort.Strings(tagNames)
	for _, k := range tagNames {
		values = append(values, st.tags[k])
	}
	q := smt.Query{Asserts: []*term.Term{goal}, Values: values}
	// adaptive order: when the primary back end has just timed out several times in a row while a
	// fallback decided the same queries, the fallbacks are asked first for the rest of this worker
	var ans smt.Answer
	used := e.Solver.Kind
	tryFallbacks := func(spent float64) bool {
		for _, k := range e.FallbackKinds {
			fb := e.fallback(k)
			if fb == nil {
				continue
			}
			a2 := fb.Check(q)
			a2.Sec += spent
			if a2.Res != smt.Unknown {
				ans, used = a2, k
				return true
			}
			spent = a2.Sec
		}
		return false
	}
	if e.primaryStruggles >= 3 && len(e.FallbackKinds) > 0 {
		if !tryFallbacks(0) {
			ans = e.Solver.Check(q)
			used = e.Solver.Kind
		}
	} else {
		ans = e.Solver.Check(q)
		if ans.Res == smt.Unknown {
			if tryFallbacks(ans.Sec) {
				e.primaryStruggles++
			}
		} else {
			e.primaryStruggles = 0
		}
	}
	ob := ObResult{Label: label, Sec: ans.Sec, Note: note, Size: term.Size(goal), Solver: used}
	switch ans.Res {
	case smt.Unsat:
		if finding != "" {
			return // stale known finding: nothing to report
		}
		ob.Status = ObDischarged
	case smt.Unknown:
		ob.Status = ObInconclusive
		ob.Note = strings.TrimSpace(note + " solver: unknown " + ans.Err)
	case smt.Sat:
		ob.Status = ObViolated
		if finding != "" {
			ob.Status = ObKnown
			ob.Finding = finding
		}
		m := &ModelJSON{Scalars: map[string]uint64{}, Arrays: map[string]map[string]uint64{}, Choices: st.choices}
		i := 0
		for _, v := range scal {
			m.Scalars[v.Name] = ans.Values[i]
			i++
		}
		for _, s := range slots {
			ix, val := ans.Values[i], ans.Values[i+1]
			i += 2
			if m.Arrays[s.arr.Name] == nil {
				m.Arrays[s.arr.Name] = map[string]uint64{}
			}
			m.Arrays[s.arr.Name][fmt.Sprint(ix)] = val
		}
		ob.Tags = map[string]uint64{}
		for _, k := range tagNames {
			ob.Tags[k] = ans.Values[i]
			i++
		}
		ob.Model = m
		// self-check: the model must satisfy the goal under the engine's own evaluator; if it does not,
		// the SMT-LIB rendering or the solver disagrees with the term semantics
		tm := term.NewModel()
		for k, v := range m.Scalars {
			tm.Scalars[k] = v
		}
		for name, am := range m.Arrays {
			av := &term.ArrVal{M: map[uint64]uint64{}}
			for k, v := range am {
				var ix uint64
				fmt.Sscan(k, &ix)
				av.M[ix] = v
			}
			tm.Arrays[name] = av
		}
		if ok, evalErr := safeEval(goal, tm); evalErr == "" && !ok {
			ob.Status = ObInconclusive
			ob.Note = strings.TrimSpace(ob.Note + " solver model does not satisfy the goal under the engine's evaluator (encoding mismatch)")
		}
	}
	e.recordOb(ob)
}

func renderObs(st *State, v Value) string {
	switch x := v.(type) {
	case *term.Term:
		if x.IsConst() {
			return fmt.Sprintf("%d", x.Val)
		}
		return "sym:" + x.String()
	case *StrV:
		if s, ok := x.Concrete(); ok {
			return fmt.Sprintf("%q", s)
		}
		var sb strings.Builder
		for _, b := range x.bytes() {
			if b.IsConst() {
				sb.WriteByte(byte(b.Val))
			} else {
				sb.WriteByte('?')
			}
		}
		return "sym-string:" + sb.String()
	}
	return fmt.Sprintf("%T", v)
}

// Summary strings for evidence.
func (e *Engine) FunctionsEncoded() []string {
	var out []string
	for k := range e.funcsSeen {
		out = append(out, k)
	}
	sort.Strings(out)
	return out
}

func (e *Engine) ModelsUsed() []string {
	var out []string
	for k := range e.modelsHit {
		out = append(out, k)
	}
	sort.Strings(out)
	return out
}

func (e *Engine) StdGlobalsRead() []string {
	var out []string
	for k := range e.stdGlobal {
		out = append(out, k)
	}
	sort.Strings(out)
	return out
}

func (e *Engine) TotalStats() Stats { return e.stats }

// RunSetup executes a concrete setup function once; every job then forks from its final state.
func (e *Engine) RunSetup(pkg, fn string) (err error) {
	defer func() {
		if r := recover(); r != nil {
			if u, ok := r.(unsupportedErr); ok {
				err = u
				return
			}
			panic(r)
		}
	}()
	f := e.findFunc(pkg, fn)
	if f == nil {
		return fmt.Errorf("setup function %s.%s not found", pkg, fn)
	}
	e.job = &jobCtx{res: &JobResult{}, reached: map[string]bool{}, assumes: map[string]bool{}}
	outs := e.call(e.base, f, nil, nil, 1)
	if len(outs) != 1 || outs[0].Panic != nil {
		return fmt.Errorf("setup did not complete on exactly one path (%d outcomes)", len(outs))
	}
	e.base = outs[0].St
	e.base.written = map[int]bool{}
	return nil
}

func (e *Engine) fallback(kind string) *smt.Solver {
	if e.fallbacks == nil {
		e.fallbacks = map[string]*smt.Solver{}
	}
	if s, ok := e.fallbacks[kind]; ok {
		return s
	}
	s, err := smt.New(kind, e.Solver.TimeoutMs)
	if err != nil {
		e.fallbacks[kind] = nil
		return nil
	}
	e.fallbacks[kind] = s
	return s
}

// Close stops fallback solvers and returns their accumulated statistics.
func (e *Engine) Close() smt.Stats {
	var st smt.Stats
	for _, s := range e.fallbacks {
		if s != nil {
			st.Queries += s.Stats.Queries
			st.SolverSec += s.Stats.SolverSec
			st.Sat += s.Stats.Sat
			st.Unsat += s.Stats.Unsat
			st.Unknown += s.Stats.Unknown
			s.Close()
		}
	}
	return st
}

func safeEval(goal *term.Term, m *term.Model) (ok bool, err string) {
	defer func() {
		if r := recover(); r != nil {
			err = fmt.Sprint(r)
		}
	}()
	v, _ := term.Eval(goal, m)
	return v != 0, ""
}

// GlobalWriteScan lists, syntactically, every instruction in a function of the repository (outside
// package initialisers) that stores through an address derived from a package-level variable:
// Store/MapUpdate and copy/append/delete/clear calls whose destination traces back - through
// field/index addressing, slicing, conversions and loads - to an *ssa.Global.
func (e *Engine) GlobalWriteScan() (hits []string, functions int) {
	var fromGlobal func(v ssa.Value, depth int) string
	fromGlobal = func(v ssa.Value, depth int) string {
		if depth > 12 {
			return ""
		}
		switch x := v.(type) {
		case *ssa.Global:
			if x.Pkg != nil && repoPkg(x.Pkg.Pkg.Path()) {
				return x.Pkg.Pkg.Path() + "." + x.Name()
			}
		case *ssa.FieldAddr:
			return fromGlobal(x.X, depth+1)
		case *ssa.IndexAddr:
			return fromGlobal(x.X, depth+1)
		case *ssa.Slice:
			return fromGlobal(x.X, depth+1)
		case *ssa.ChangeType:
			return fromGlobal(x.X, depth+1)
		case *ssa.Convert:
			return fromGlobal(x.X, depth+1)
		case *ssa.UnOp:
			return fromGlobal(x.X, depth+1) // value loaded from a global (pointer, slice or map kept there)
		case *ssa.Phi:
			for _, ed := range x.Edges {
				if g := fromGlobal(ed, depth+1); g != "" {
					return g
				}
			}
		}
		return ""
	}
	for fn := range ssautil.AllFunctions(e.prog) {
		if fn.Pkg == nil || !repoPkg(fn.Pkg.Pkg.Path()) || fn.Name() == "init" || strings.HasPrefix(fn.Name(), "init#") {
			continue
		}
		functions++
		for _, b := range fn.Blocks {
			for _, in := range b.Instrs {
				var target ssa.Value
				what := ""
				switch x := in.(type) {
				case *ssa.Store:
					target, what = x.Addr, "store"
				case *ssa.MapUpdate:
					target, what = x.Map, "map update"
				case *ssa.Call:
					if bi, ok := x.Common().Value.(*ssa.Builtin); ok {
						switch bi.Name() {
						case "copy", "delete", "clear":
							target, what = x.Common().Args[0], bi.Name()
						}
					}
				}
				if target == nil {
					continue
				}
				if g := fromGlobal(target, 0); g != "" {
					hits = append(hits, fmt.Sprintf("%s: %s into %s at %s", fn.String(), what, g, e.pos(in)))
				}
			}
		}
	}
	sort.Strings(hits)
	return hits, functions
}
