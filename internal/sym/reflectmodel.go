package sym

import (
	"fmt"
	"go/types"

	"verif/internal/term"
)

// Models of reflect (the subset header.go uses) and encoding/binary.Read/Write.
// The models follow the documented contracts; the walker in header.go runs for real.

func (e *Engine) registerReflectBinary(reg func(string, intrinsic)) {
	reg("reflect.ValueOf", func(e *Engine, st *State, args []Value, depth int) []Outcome {
		e.modelsHit["reflect"] = true
		iv := args[0].(*IfaceV)
		if iv.T == nil {
			panic(unsupported("reflect.ValueOf(nil)"))
		}
		return ret(st, &ReflectV{T: iv.T, V: iv.V, Exported: true})
	})
	reg("(reflect.Value).Elem", func(e *Engine, st *State, args []Value, depth int) []Outcome {
		rv := args[0].(*ReflectV)
		pt, ok := rv.T.Underlying().(*types.Pointer)
		if !ok {
			panic(unsupported("reflect.Value.Elem on non-pointer " + rv.T.String()))
		}
		p := rv.value(st).(*Ptr)
		if p == nil {
			panic(unsupported("reflect.Value.Elem on nil pointer"))
		}
		return ret(st, &ReflectV{T: pt.Elem(), Addr: p, Exported: rv.Exported})
	})
	reg("(reflect.Value).NumField", func(e *Engine, st *State, args []Value, depth int) []Outcome {
		rv := args[0].(*ReflectV)
		s, ok := rv.T.Underlying().(*types.Struct)
		if !ok {
			return []Outcome{{St: st, Panic: &PanicInfo{Msg: "reflect: NumField of non-struct type"}}}
		}
		return ret(st, c64(s.NumFields()))
	})
	reg("(reflect.Value).Field", func(e *Engine, st *State, args []Value, depth int) []Outcome {
		rv := args[0].(*ReflectV)
		s := rv.T.Underlying().(*types.Struct)
		i, ok := concreteInt(args[1])
		if !ok || i < 0 || i >= s.NumFields() {
			return []Outcome{{St: st, Panic: &PanicInfo{Msg: "reflect: Field index out of range"}}}
		}
		f := s.Field(i)
		n := &ReflectV{T: f.Type(), Exported: rv.Exported && f.Exported()}
		if rv.Addr != nil {
			n.Addr = rv.Addr.child(Step{Idx: i})
		} else {
			n.V = rv.V.(*StructV).F[i]
		}
		return ret(st, n)
	})
	reg("(reflect.Value).CanInterface", func(e *Engine, st *State, args []Value, depth int) []Outcome {
		return ret(st, term.Bool(args[0].(*ReflectV).Exported))
	})
	reg("(reflect.Value).CanAddr", func(e *Engine, st *State, args []Value, depth int) []Outcome {
		return ret(st, term.Bool(args[0].(*ReflectV).Addr != nil))
	})
	reg("(reflect.Value).Addr", func(e *Engine, st *State, args []Value, depth int) []Outcome {
		rv := args[0].(*ReflectV)
		if rv.Addr == nil {
			return []Outcome{{St: st, Panic: &PanicInfo{Msg: "reflect.Value.Addr of unaddressable value"}}}
		}
		return ret(st, &ReflectV{T: types.NewPointer(rv.T), V: rv.Addr, Exported: rv.Exported})
	})
	reg("(reflect.Value).Interface", func(e *Engine, st *State, args []Value, depth int) []Outcome {
		rv := args[0].(*ReflectV)
		if !rv.Exported {
			return []Outcome{{St: st, Panic: &PanicInfo{Msg: "reflect.Value.Interface: cannot return value obtained from unexported field or method"}}}
		}
		return ret(st, &IfaceV{T: rv.T, V: rv.value(st)})
	})
	reg("(reflect.Value).Type", func(e *Engine, st *State, args []Value, depth int) []Outcome {
		return ret(st, &IfaceV{T: types.Typ[types.UnsafePointer], V: &ReflectTypeV{T: args[0].(*ReflectV).T}})
	})
	reg("encoding/binary.Read", func(e *Engine, st *State, args []Value, depth int) []Outcome {
		e.modelsHit["encoding/binary.Read"] = true
		return e.binaryRead(st, args[0].(*IfaceV), args[1].(*IfaceV), args[2].(*IfaceV), depth)
	})
	reg("encoding/binary.Write", func(e *Engine, st *State, args []Value, depth int) []Outcome {
		e.modelsHit["encoding/binary.Write"] = true
		return e.binaryWrite(st, args[0].(*IfaceV), args[1].(*IfaceV), args[2].(*IfaceV), depth)
	})
}

func (rv *ReflectV) value(st *State) Value {
	if rv.Addr != nil {
		return st.load(rv.Addr)
	}
	return rv.V
}

// invokeModel handles method calls on modelled interface values.
func (e *Engine) invokeModel(st *State, recv *IfaceV, method string, args []Value, depth int) ([]Outcome, bool) {
	rt, ok := recv.V.(*ReflectTypeV)
	if !ok {
		return nil, false
	}
	switch method {
	case "Name":
		if n, ok := rt.T.(*types.Named); ok {
			return ret(st, &StrV{S: n.Obj().Name()}), true
		}
		return ret(st, &StrV{}), true
	case "Field":
		s := rt.T.Underlying().(*types.Struct)
		i, _ := concreteInt(args[0])
		sf := e.ssaPkgs["reflect"].Type("StructField").Type()
		v := e.zero(sf).(*StructV)
		f := append([]Value(nil), v.F...)
		f[0] = &StrV{S: s.Field(i).Name()}
		return ret(st, &StructV{F: f}), true
	case "String":
		return ret(st, &StrV{S: rt.T.String()}), true
	}
	panic(unsupported("reflect.Type method " + method))
}

func isLittleEndian(order *IfaceV) bool {
	if order.T == nil {
		return false
	}
	n, ok := order.T.(*types.Named)
	return ok && n.Obj().Name() == "littleEndian" && n.Obj().Pkg().Path() == "encoding/binary"
}

func binSize(t types.Type) int {
	switch u := t.Underlying().(type) {
	case *types.Basic:
		if w, _, ok := intWidth(t); ok {
			if u.Kind() == types.Int || u.Kind() == types.Uint || u.Kind() == types.Uintptr {
				return -1
			}
			return w / 8
		}
		if u.Info()&types.IsBoolean != 0 {
			return 1
		}
	case *types.Array:
		s := binSize(u.Elem())
		if s < 0 {
			return -1
		}
		return s * int(u.Len())
	case *types.Struct:
		n := 0
		for i := 0; i < u.NumFields(); i++ {
			s := binSize(u.Field(i).Type())
			if s < 0 {
				return -1
			}
			n += s
		}
		return n
	}
	return -1
}

func (e *Engine) binDecode(t types.Type, bs []*term.Term) (Value, []*term.Term) {
	switch u := t.Underlying().(type) {
	case *types.Basic:
		if w, _, ok := intWidth(t); ok {
			n := w / 8
			parts := make([]*term.Term, n)
			for i := 0; i < n; i++ {
				parts[n-1-i] = bs[i]
			}
			return term.Concat(parts...), bs[n:]
		}
		return term.Not(term.Eq(bs[0], term.Const(8, 0))), bs[1:]
	case *types.Array:
		n := int(u.Len())
		if w, _, ok := intWidth(u.Elem()); ok {
			a := term.ConstArr(w, term.Const(w, 0))
			for i := 0; i < n; i++ {
				var v Value
				v, bs = e.binDecode(u.Elem(), bs)
				a = term.Store(a, term.Const(32, uint64(i)), v.(*term.Term))
			}
			return &SymArrV{A: a, N: n}, bs
		}
		el := make([]Value, n)
		for i := range el {
			el[i], bs = e.binDecode(u.Elem(), bs)
		}
		return &ArrV{E: el}, bs
	case *types.Struct:
		f := make([]Value, u.NumFields())
		for i := range f {
			if u.Field(i).Name() == "_" {
				f[i] = e.zero(u.Field(i).Type())
				bs = bs[binSize(u.Field(i).Type()):]
				continue
			}
			f[i], bs = e.binDecode(u.Field(i).Type(), bs)
		}
		return &StructV{F: f}, bs
	}
	panic(unsupported("binary decode of " + t.String()))
}

func (e *Engine) binEncode(t types.Type, v Value, out []*term.Term) []*term.Term {
	switch u := t.Underlying().(type) {
	case *types.Basic:
		if w, _, ok := intWidth(t); ok {
			x := v.(*term.Term)
			for i := 0; i < w/8; i++ {
				out = append(out, term.Extract(x, 8*i+7, 8*i))
			}
			return out
		}
		return append(out, term.Ite(v.(*term.Term), term.Const(8, 1), term.Const(8, 0)))
	case *types.Array:
		n := int(u.Len())
		switch a := v.(type) {
		case *SymArrV:
			for i := 0; i < n; i++ {
				out = e.binEncode(u.Elem(), term.Select(a.A, term.Const(32, uint64(i))), out)
			}
		case *ArrV:
			for i := 0; i < n; i++ {
				out = e.binEncode(u.Elem(), a.E[i], out)
			}
		default:
			panic(unsupported("binary encode of array value"))
		}
		return out
	case *types.Struct:
		s := v.(*StructV)
		for i := 0; i < u.NumFields(); i++ {
			if u.Field(i).Name() == "_" {
				for k := 0; k < binSize(u.Field(i).Type()); k++ {
					out = append(out, term.Const(8, 0))
				}
				continue
			}
			out = e.binEncode(u.Field(i).Type(), s.F[i], out)
		}
		return out
	}
	panic(unsupported("binary encode of " + t.String()))
}

func (e *Engine) opaqueErr(st *State, name string) Value {
	for g, o := range e.globals {
		if g.Pkg != nil && g.Pkg.Pkg.Path()+"."+g.Name() == name {
			return st.root(o)
		}
	}
	// materialise through the io package's SSA global
	p := e.ssaPkgs["io"]
	if p != nil {
		short := name[len("io."):]
		if g := p.Var(short); g != nil {
			return st.root(e.globalObj(st, g))
		}
	}
	panic(unsupported("unknown opaque error " + name))
}

func (e *Engine) binaryRead(st *State, r, order, data *IfaceV, depth int) []Outcome {
	if !isLittleEndian(order) {
		panic(unsupported("binary.Read with a byte order other than LittleEndian"))
	}
	pt, ok := data.T.Underlying().(*types.Pointer)
	if !ok {
		panic(unsupported("binary.Read into non-pointer " + data.T.String()))
	}
	size := binSize(pt.Elem())
	if size < 0 {
		return ret(st, e.newError(st, &StrV{S: "binary.Read: invalid type " + pt.Elem().String()}))
	}
	buf := e.makeSlice(st, types.Typ[types.Uint8], size, size, "binary.Read buffer")
	var res []Outcome
	// io.ReadFull: up to two Read calls are modelled (enough for in-memory readers)
	var step func(st *State, got int, round int)
	step = func(st *State, got int, round int) {
		sub := &SliceV{Base: buf.Base, Off: c64(got), Len: c64(size - got), Cap: c64(size - got)}
		for _, o := range e.invoke(st, r, "Read", []Value{sub}, depth) {
			if o.Panic != nil {
				res = append(res, o)
				continue
			}
			tup := o.Ret.(*TupleV)
			n, okn := concreteInt(tup.E[0])
			if !okn {
				panic(unsupported("binary.Read: reader returned a symbolic count"))
			}
			errV := tup.E[1].(*IfaceV)
			total := got + n
			switch {
			case total >= size:
				arr := o.St.load(buf.Base).(*SymArrV)
				bs := make([]*term.Term, size)
				for i := range bs {
					bs[i] = term.Select(arr.A, term.Const(32, uint64(i)))
				}
				v, _ := e.binDecode(pt.Elem(), bs)
				o.St.store(data.V.(*Ptr), v)
				res = append(res, Outcome{St: o.St, Ret: nilIface})
			case errV.T != nil:
				eof := e.opaqueErr(o.St, "io.EOF").(*IfaceV)
				if total > 0 && sameValue(errV, eof) {
					res = append(res, Outcome{St: o.St, Ret: e.opaqueErr(o.St, "io.ErrUnexpectedEOF")})
				} else {
					res = append(res, Outcome{St: o.St, Ret: errV})
				}
			case round >= 3:
				res = append(res, Outcome{St: o.St, Ret: e.opaqueErr(o.St, "io.ErrNoProgress")})
			default:
				step(o.St, total, round+1)
			}
		}
	}
	step(st, 0, 0)
	return res
}

func (e *Engine) binaryWrite(st *State, w, order, data *IfaceV, depth int) []Outcome {
	if !isLittleEndian(order) {
		panic(unsupported("binary.Write with a byte order other than LittleEndian"))
	}
	t := data.T
	v := data.V
	if pt, ok := t.Underlying().(*types.Pointer); ok {
		t = pt.Elem()
		v = st.load(data.V.(*Ptr))
	}
	if binSize(t) < 0 {
		return ret(st, e.newError(st, &StrV{S: fmt.Sprintf("binary.Write: some values are not fixed-sized in type %s", t)}))
	}
	bs := e.binEncode(t, v, nil)
	buf := e.bytesToSlice(st, bs, "binary.Write buffer")
	var res []Outcome
	for _, o := range e.invoke(st, w, "Write", []Value{buf}, depth) {
		if o.Panic != nil {
			res = append(res, o)
			continue
		}
		res = append(res, Outcome{St: o.St, Ret: o.Ret.(*TupleV).E[1]})
	}
	return res
}
