package sym

import (
	"fmt"
	"go/types"
	"hash/fnv"
	"strconv"
	"strings"

	"golang.org/x/tools/go/ssa"

	"verif/internal/term"
)

type intrinsic func(e *Engine, st *State, args []Value, depth int) []Outcome

// ConcreteSource supplies concrete values for vp inputs in conformance mode.
type ConcreteSource struct {
	Seed   uint64
	Fixed  map[string]uint64            // explicit scalar values (replay)
	Arrays map[string]map[uint64]uint64 // explicit array contents (replay)
	Random bool                         // unspecified values are pseudo-random (else zero)
}

// HashValue is the deterministic pseudo-random value of a named input; the native vp uses
// the same function.
func HashValue(seed uint64, name string, idx uint64) uint64 {
	h := fnv.New64a()
	var b [16]byte
	for i := 0; i < 8; i++ {
		b[i] = byte(seed >> (8 * i))
		b[8+i] = byte(idx >> (8 * i))
	}
	h.Write(b[:])
	h.Write([]byte(name))
	x := h.Sum64()
	x ^= x >> 33
	x *= 0xff51afd7ed558ccd
	x ^= x >> 33
	return x
}

func ret(st *State, v Value) []Outcome { return []Outcome{{St: st, Ret: v}} }

func (e *Engine) intrinsicFor(fn *ssa.Function) intrinsic {
	name := fn.String()
	if in, ok := e.intr[name]; ok {
		return in
	}
	if fn.Pkg != nil && !ownPkg(fn.Pkg.Pkg.Path()) && fn.Name() == "init" {
		return func(e *Engine, st *State, args []Value, depth int) []Outcome { return ret(st, nil) }
	}
	return nil
}

func strArg(v Value) string {
	s, ok := v.(*StrV).Concrete()
	if !ok {
		panic(unsupported("symbolic string where a concrete one is required"))
	}
	return s
}

func (e *Engine) scalarInput(name string, w int) *term.Term {
	if e.Concrete != nil {
		if v, ok := e.Concrete.Fixed[name]; ok {
			if w == 0 {
				return term.Bool(v&1 == 1)
			}
			return term.Const(w, v)
		}
		var v uint64
		if e.Concrete.Random {
			v = HashValue(e.Concrete.Seed, name, 0)
		}
		if w == 0 {
			return term.Bool(v&1 == 1)
		}
		return term.Const(w, v)
	}
	if w == 0 {
		return term.BoolVar(name)
	}
	return term.Var(name, w)
}

func (e *Engine) arrayInput(name string, n int) *term.Term {
	if e.Concrete != nil {
		a := term.ConstArr(8, term.Const(8, 0))
		if fixed, ok := e.Concrete.Arrays[name]; ok {
			for ix, v := range fixed {
				a = term.Store(a, term.Const(32, ix), term.Const(8, v))
			}
			return a
		}
		if e.Concrete.Random && n <= 4096 { // larger arrays are zero-filled, as in the native vp
			for i := 0; i < n; i++ {
				a = term.Store(a, term.Const(32, uint64(i)), term.Const(8, HashValue(e.Concrete.Seed, name, uint64(i))))
			}
		}
		return a
	}
	return term.ArrVar(name, 8)
}

func (e *Engine) registerIntrinsics() {
	e.intr = map[string]intrinsic{}
	reg := func(name string, f intrinsic) { e.intr[name] = f }
	scalar := func(w int) intrinsic {
		return func(e *Engine, st *State, args []Value, depth int) []Outcome {
			return ret(st, e.scalarInput(strArg(args[0]), w))
		}
	}
	for _, vpk := range []string{"verif/vp"} {
		reg(vpk+".U8", scalar(8))
		reg(vpk+".U16", scalar(16))
		reg(vpk+".U32", scalar(32))
		reg(vpk+".U64", scalar(64))
		reg(vpk+".Int", scalar(64))
		reg(vpk+".Bool", scalar(0))
		reg(vpk+".Bytes", func(e *Engine, st *State, args []Value, depth int) []Outcome {
			name := strArg(args[0])
			n, ok := concreteInt(args[1])
			if !ok {
				panic(unsupported("vp.Bytes with symbolic length"))
			}
			at := types.NewArray(types.Typ[types.Uint8], int64(n))
			o := e.newObject(st, at, "vp.Bytes "+name, &SymArrV{A: e.arrayInput(name, n), N: n})
			return ret(st, &SliceV{Base: &Ptr{Obj: o}, Off: c64(0), Len: c64(n), Cap: c64(n)})
		})
		reg(vpk+".FillBytes", func(e *Engine, st *State, args []Value, depth int) []Outcome {
			name := strArg(args[0])
			s := args[1].(*SliceV)
			arr, ok := st.load(s.Base).(*SymArrV)
			off, ok2 := concreteInt(s.Off)
			ln, ok3 := concreteInt(s.Len)
			if !ok || !ok2 || !ok3 || off != 0 || ln != arr.N {
				panic(unsupported("vp.FillBytes needs a slice covering a whole byte array"))
			}
			st.store(s.Base, &SymArrV{A: e.arrayInput(name, arr.N), N: arr.N})
			return ret(st, nil)
		})
		reg(vpk+".Assume", func(e *Engine, st *State, args []Value, depth int) []Outcome {
			c := args[0].(*term.Term)
			if c != term.True {
				e.restrictSeq++
			}
			st.assume(c)
			if st.dead() {
				return nil
			}
			return ret(st, nil)
		})
		reg(vpk+".Assert", func(e *Engine, st *State, args []Value, depth int) []Outcome {
			label := strArg(args[0])
			c := args[1].(*term.Term)
			e.checkObligation(st, label, c, "")
			return ret(st, nil)
		})
		reg(vpk+".Reach", func(e *Engine, st *State, args []Value, depth int) []Outcome {
			label := strArg(args[0])
			if !e.job.reached[label] && e.feasible(st) {
				e.job.reached[label] = true
			}
			return ret(st, nil)
		})
		reg(vpk+".Tag", func(e *Engine, st *State, args []Value, depth int) []Outcome {
			st.tags[strArg(args[0])] = args[1].(*term.Term)
			return ret(st, nil)
		})
		reg(vpk+".Note", func(e *Engine, st *State, args []Value, depth int) []Outcome {
			e.job.assumes[strArg(args[0])] = true
			return ret(st, nil)
		})
		reg(vpk+".Try", func(e *Engine, st *State, args []Value, depth int) []Outcome {
			f := args[0].(*FuncV)
			outs := e.call(st, f.Fn, nil, f.Bind, depth+1)
			var res []Outcome
			for _, o := range outs {
				if o.Panic != nil {
					res = append(res, Outcome{St: o.St, Ret: term.True})
				} else {
					res = append(res, Outcome{St: o.St, Ret: term.False})
				}
			}
			// failure and success are kept as separate paths: a harness that goes on to assume one of
			// them then works with concrete lengths and counters
			return res
		})
		reg(vpk+".Choose", func(e *Engine, st *State, args []Value, depth int) []Outcome {
			name := strArg(args[0])
			n, ok := concreteInt(args[1])
			if !ok || n <= 0 {
				panic(unsupported("vp.Choose needs a positive concrete n"))
			}
			if e.Concrete != nil {
				v := uint64(0)
				if f, ok := e.Concrete.Fixed["choose:"+name]; ok {
					v = f
				} else if e.Concrete.Random {
					v = HashValue(e.Concrete.Seed, "choose:"+name, 0) % uint64(n)
				}
				return ret(st, c64(int(v)))
			}
			var res []Outcome
			for i := 0; i < n; i++ {
				ns := st
				if i < n-1 {
					ns = st.fork()
				}
				ns.choices = append(ns.choices[:len(ns.choices):len(ns.choices)], Choice{name, i})
				res = append(res, Outcome{St: ns, Ret: c64(i)})
			}
			e.stats.Forks += n - 1
			return res
		})
		reg(vpk+".BytesEqual", func(e *Engine, st *State, args []Value, depth int) []Outcome {
			return ret(st, e.bytesEqual(st, args[0].(*SliceV), args[1].(*SliceV)))
		})
		reg(vpk+".ObserveU64", func(e *Engine, st *State, args []Value, depth int) []Outcome {
			st.obs = append(st.obs[:len(st.obs):len(st.obs)], Observation{strArg(args[0]), args[1]})
			return ret(st, nil)
		})
		reg(vpk+".ObserveStr", func(e *Engine, st *State, args []Value, depth int) []Outcome {
			st.obs = append(st.obs[:len(st.obs):len(st.obs)], Observation{strArg(args[0]), args[1]})
			return ret(st, nil)
		})
		reg(vpk+".ObserveBytes", func(e *Engine, st *State, args []Value, depth int) []Outcome {
			s := args[1].(*SliceV)
			n, ok := concreteInt(srcLen(s))
			if !ok {
				panic(unsupported("ObserveBytes with symbolic length"))
			}
			bs := make([]*term.Term, n)
			for i := range bs {
				bs[i] = st.load(e.elemPtr(s, c64(i))).(*term.Term)
			}
			st.obs = append(st.obs[:len(st.obs):len(st.obs)], Observation{strArg(args[0]), mkStr(bs)})
			return ret(st, nil)
		})
		reg(vpk+".IsConcrete", func(e *Engine, st *State, args []Value, depth int) []Outcome {
			return ret(st, term.Bool(args[0].(*term.Term).IsConst()))
		})
		reg(vpk+".Conformance", func(e *Engine, st *State, args []Value, depth int) []Outcome {
			return ret(st, term.Bool(e.Concrete != nil && e.Concrete.Random))
		})
		reg(vpk+".Symbolic", func(e *Engine, st *State, args []Value, depth int) []Outcome {
			return ret(st, term.Bool(e.Concrete == nil))
		})
	}

	// ---- fmt / log
	reg("fmt.Sprintf", func(e *Engine, st *State, args []Value, depth int) []Outcome {
		e.modelsHit["fmt.Sprintf"] = true
		return ret(st, e.sprintf(st, args[0].(*StrV), args[1].(*SliceV)))
	})
	reg("fmt.Errorf", func(e *Engine, st *State, args []Value, depth int) []Outcome {
		e.modelsHit["fmt.Errorf"] = true
		msg := e.sprintf(st, args[0].(*StrV), args[1].(*SliceV))
		return ret(st, e.newError(st, msg))
	})
	reg("errors.New", func(e *Engine, st *State, args []Value, depth int) []Outcome {
		e.modelsHit["errors.New"] = true
		return ret(st, e.newError(st, args[0].(*StrV)))
	})
	reg("fmt.Fprintf", func(e *Engine, st *State, args []Value, depth int) []Outcome {
		e.modelsHit["fmt.Fprintf"] = true
		var outs []Outcome
		for _, v := range e.sprintfForks(st, args[1].(*StrV), args[2].(*SliceV), nil, 0) {
			if v.msg.Opaque {
				panic(unsupported("Fprintf of a value whose formatting is not modelled"))
			}
			buf := e.bytesToSlice(v.st, v.msg.bytes(), "fmt.Fprintf buffer")
			outs = append(outs, e.invoke(v.st, args[0].(*IfaceV), "Write", []Value{buf}, depth)...)
		}
		return outs
	})
	reg("log.Println", func(e *Engine, st *State, args []Value, depth int) []Outcome {
		e.modelsHit["log.Println"] = true
		st.obs = append(st.obs[:len(st.obs):len(st.obs)], Observation{"log.Println", &StrV{S: "called"}})
		return ret(st, nil)
	})
	reg("log.Printf", func(e *Engine, st *State, args []Value, depth int) []Outcome {
		e.modelsHit["log.Printf"] = true
		return ret(st, nil)
	})
	reg("log.Fatalf", func(e *Engine, st *State, args []Value, depth int) []Outcome {
		e.modelsHit["log.Fatalf"] = true
		return []Outcome{{St: st, Panic: &PanicInfo{Msg: "log.Fatalf (process exit)"}}}
	})

	// ---- strconv.AppendInt(dst, i, 10) for small non-negative symbolic i (xbuf.B.Db prints a cycle count)
	reg("strconv.AppendInt", func(e *Engine, st *State, args []Value, depth int) []Outcome {
		e.modelsHit["strconv.AppendInt"] = true
		dst := args[0].(*SliceV)
		v := args[1].(*term.Term)
		base, ok := concreteInt(args[2])
		if !ok || base != 10 {
			panic(unsupported("strconv.AppendInt with a base other than 10"))
		}
		if v.IsConst() {
			s := strconv.FormatInt(int64(v.Val), 10)
			return ret(st, e.appendRaw(st, dst, &StrV{S: s}, types.Typ[types.Uint8]))
		}
		if term.UB(v) > 999 {
			panic(unsupported("strconv.AppendInt of a symbolic value that may exceed 999"))
		}
		// the number of digits is a structural property of the output: three outcomes
		d := term.Extract(v, 9, 0) // 10 bits are enough for 0..999
		c10, c100 := term.Const(10, 10), term.Const(10, 100)
		dig := func(t *term.Term) *term.Term { return term.Add(term.Extract(t, 7, 0), term.Const(8, '0')) }
		var res []Outcome
		type variant struct {
			cond   *term.Term
			digits []*term.Term
		}
		vs := []variant{
			{term.Ult(d, c10), []*term.Term{dig(d)}},
			{term.And(term.Not(term.Ult(d, c10)), term.Ult(d, c100)), []*term.Term{dig(term.UDiv(d, c10)), dig(term.URem(d, c10))}},
			{term.Not(term.Ult(d, c100)), []*term.Term{dig(term.UDiv(d, c100)), dig(term.URem(term.UDiv(d, c10), c10)), dig(term.URem(d, c10))}},
		}
		for i, va := range vs {
			if va.cond == term.False {
				continue
			}
			ns := st
			if i < len(vs)-1 {
				ns = st.fork()
			}
			ns.assume(va.cond)
			if ns.dead() || !e.feasible(ns) {
				continue
			}
			res = append(res, Outcome{St: ns, Ret: e.appendRaw(ns, dst, &StrV{B: va.digits}, types.Typ[types.Uint8])})
		}
		return res
	})

	// ---- bytes.Buffer
	bufField := func(st *State, recv Value) *Ptr { return recv.(*Ptr).child(Step{Idx: 0}) }
	bufWrite := func(e *Engine, st *State, recv Value, src Value) *term.Term {
		p := bufField(st, recv)
		cur := st.load(p).(*SliceV)
		n := srcLen(src)
		st.store(p, e.appendRaw(st, cur, src, types.Typ[types.Uint8]))
		return n
	}
	reg("(*bytes.Buffer).Write", func(e *Engine, st *State, args []Value, depth int) []Outcome {
		e.modelsHit["bytes.Buffer"] = true
		n := bufWrite(e, st, args[0], args[1])
		return ret(st, &TupleV{E: []Value{n, nilIface}})
	})
	reg("(*bytes.Buffer).WriteString", func(e *Engine, st *State, args []Value, depth int) []Outcome {
		e.modelsHit["bytes.Buffer"] = true
		n := bufWrite(e, st, args[0], args[1])
		return ret(st, &TupleV{E: []Value{n, nilIface}})
	})
	reg("(*bytes.Buffer).WriteByte", func(e *Engine, st *State, args []Value, depth int) []Outcome {
		e.modelsHit["bytes.Buffer"] = true
		bufWrite(e, st, args[0], mkStrTerms([]*term.Term{args[1].(*term.Term)}))
		return ret(st, nilIface)
	})
	reg("(*bytes.Buffer).Bytes", func(e *Engine, st *State, args []Value, depth int) []Outcome {
		e.modelsHit["bytes.Buffer"] = true
		off := st.load(args[0].(*Ptr).child(Step{Idx: 1})).(*term.Term)
		s := st.load(bufField(st, args[0])).(*SliceV)
		if s.Base == nil {
			return ret(st, s)
		}
		return ret(st, &SliceV{Base: s.Base, Off: term.Add(s.Off, off), Len: term.Sub(s.Len, off), Cap: term.Sub(s.Cap, off)})
	})
	reg("(*bytes.Buffer).Len", func(e *Engine, st *State, args []Value, depth int) []Outcome {
		e.modelsHit["bytes.Buffer"] = true
		off := st.load(args[0].(*Ptr).child(Step{Idx: 1})).(*term.Term)
		s := st.load(bufField(st, args[0])).(*SliceV)
		if s.Base == nil {
			return ret(st, c64(0))
		}
		return ret(st, term.Sub(s.Len, off))
	})
	reg("(*bytes.Buffer).String", func(e *Engine, st *State, args []Value, depth int) []Outcome {
		e.modelsHit["bytes.Buffer"] = true
		s := st.load(bufField(st, args[0])).(*SliceV)
		return ret(st, e.sliceToStr(st, s))
	})
	// Grow only reserves capacity: contents, length and read offset are unchanged. (A negative
	// count panics in the real method; a request that may be negative is not modelled.)
	reg("(*bytes.Buffer).Grow", func(e *Engine, st *State, args []Value, depth int) []Outcome {
		e.modelsHit["bytes.Buffer"] = true
		n := args[1].(*term.Term)
		if !n.IsConst() || int64(n.Val) < 0 {
			panic(unsupported("bytes.Buffer.Grow with a symbolic or negative count"))
		}
		return ret(st, nil)
	})
	reg("(*bytes.Buffer).Reset", func(e *Engine, st *State, args []Value, depth int) []Outcome {
		e.modelsHit["bytes.Buffer"] = true
		st.store(bufField(st, args[0]), &SliceV{})
		st.store(args[0].(*Ptr).child(Step{Idx: 1}), c64(0))
		return ret(st, nil)
	})

	// ---- strings.Builder (fields: addr *Builder, buf []byte)
	sbField := func(recv Value) *Ptr { return recv.(*Ptr).child(Step{Idx: 1}) }
	sbWrite := func(e *Engine, st *State, recv Value, src Value) *term.Term {
		p := sbField(recv)
		cur := st.load(p).(*SliceV)
		n := srcLen(src)
		st.store(p, e.appendRaw(st, cur, src, types.Typ[types.Uint8]))
		return n
	}
	reg("(*strings.Builder).WriteString", func(e *Engine, st *State, args []Value, depth int) []Outcome {
		e.modelsHit["strings.Builder"] = true
		n := sbWrite(e, st, args[0], args[1])
		return ret(st, &TupleV{E: []Value{n, nilIface}})
	})
	reg("(*strings.Builder).Write", func(e *Engine, st *State, args []Value, depth int) []Outcome {
		e.modelsHit["strings.Builder"] = true
		n := sbWrite(e, st, args[0], args[1])
		return ret(st, &TupleV{E: []Value{n, nilIface}})
	})
	reg("(*strings.Builder).WriteByte", func(e *Engine, st *State, args []Value, depth int) []Outcome {
		e.modelsHit["strings.Builder"] = true
		sbWrite(e, st, args[0], mkStrTerms([]*term.Term{args[1].(*term.Term)}))
		return ret(st, nilIface)
	})
	reg("(*strings.Builder).String", func(e *Engine, st *State, args []Value, depth int) []Outcome {
		e.modelsHit["strings.Builder"] = true
		return ret(st, e.sliceToStr(st, st.load(sbField(args[0])).(*SliceV)))
	})
	reg("(*strings.Builder).Len", func(e *Engine, st *State, args []Value, depth int) []Outcome {
		e.modelsHit["strings.Builder"] = true
		s := st.load(sbField(args[0])).(*SliceV)
		if s.Base == nil {
			return ret(st, c64(0))
		}
		return ret(st, s.Len)
	})
	reg("(*strings.Builder).Reset", func(e *Engine, st *State, args []Value, depth int) []Outcome {
		e.modelsHit["strings.Builder"] = true
		st.store(sbField(args[0]), &SliceV{})
		return ret(st, nil)
	})

	e.registerReflectBinary(reg)
}

func mkStrTerms(bs []*term.Term) *StrV { return mkStr(bs) }

// appendRaw appends src (slice or string of concrete length) to a byte slice.
func (e *Engine) appendRaw(st *State, dst *SliceV, src Value, et types.Type) *SliceV {
	add, ok := concreteInt(srcLen(src))
	if !ok {
		panic(unsupported("append of symbolic length (model)"))
	}
	if add == 0 {
		return dst
	}
	ln, cp := 0, 0
	if dst.Base != nil {
		var ok1, ok2 bool
		ln, ok1 = concreteInt(dst.Len)
		cp, ok2 = concreteInt(dst.Cap)
		if !ok1 || !ok2 {
			panic(unsupported("append to symbolic-length slice (model)"))
		}
	}
	vals := make([]Value, add)
	for i := range vals {
		vals[i] = e.srcElem(st, src, i)
	}
	res := dst
	if dst.Base == nil || ln+add > cp {
		ncap := 2 * cp
		if ncap < ln+add {
			ncap = ln + add
		}
		if ncap < 16 {
			ncap = 16
		}
		ns := e.makeSlice(st, et, ln+add, ncap, "append (model)")
		for i := 0; i < ln; i++ {
			st.store(e.elemPtr(ns, c64(i)), st.load(e.elemPtr(dst, c64(i))))
		}
		res = ns
	} else {
		res = &SliceV{Base: dst.Base, Off: dst.Off, Len: c64(ln + add), Cap: dst.Cap}
	}
	for i := 0; i < add; i++ {
		st.store(e.elemPtr(res, c64(ln+i)), vals[i])
	}
	return res
}

func (e *Engine) sliceToStr(st *State, s *SliceV) *StrV {
	if s.Base == nil {
		return &StrV{}
	}
	n, ok := concreteInt(s.Len)
	if !ok {
		panic(unsupported("string of symbolic-length slice"))
	}
	bs := make([]*term.Term, n)
	for i := range bs {
		bs[i] = st.load(e.elemPtr(s, c64(i))).(*term.Term)
	}
	return mkStr(bs)
}

func (e *Engine) bytesToSlice(st *State, bs []*term.Term, site string) *SliceV {
	n := len(bs)
	at := types.NewArray(types.Typ[types.Uint8], int64(n))
	a := term.ConstArr(8, term.Const(8, 0))
	for i, b := range bs {
		a = term.Store(a, term.Const(32, uint64(i)), b)
	}
	o := e.newObject(st, at, site, &SymArrV{A: a, N: n})
	return &SliceV{Base: &Ptr{Obj: o}, Off: c64(0), Len: c64(n), Cap: c64(n)}
}

func (e *Engine) newError(st *State, msg *StrV) Value {
	o := e.newObject(st, types.Typ[types.String], "error value", &StructV{F: []Value{msg}})
	if s, ok := msg.Concrete(); ok {
		e.errMsgs[o.ID] = s
	} else {
		e.errMsgs[o.ID] = "<error with symbolic text>"
	}
	return &IfaceV{T: e.errStrT, V: &Ptr{Obj: o}}
}

// bytesEqual builds the extensional equality of two byte slices of equal concrete length.
func (e *Engine) bytesEqual(st *State, a, b *SliceV) *term.Term {
	la, lb := srcLen(a), srcLen(b)
	if !term.Same(la, lb) {
		if la.IsConst() && lb.IsConst() {
			return term.False
		}
		panic(unsupported("BytesEqual with symbolic lengths"))
	}
	n, ok := concreteInt(la)
	if !ok {
		panic(unsupported("BytesEqual with symbolic length"))
	}
	if n == 0 {
		return term.True
	}
	aa, ok1 := st.load(a.Base).(*SymArrV)
	ba, ok2 := st.load(b.Base).(*SymArrV)
	if ok1 && ok2 && aa.N == n && ba.N == n && a.Off.IsConst() && b.Off.IsConst() && a.Off.Val == 0 && b.Off.Val == 0 {
		if aa.A == ba.A {
			return term.True
		}
		if n > 256 {
			if n != 1<<24 && n&(n-1) != 0 {
				// equality of whole SMT arrays would also compare indices >= n; restrict via quantifier-free trick:
				// both arrays come from the same base plus stores at in-range indices, so out-of-range cells agree.
			}
			return term.Eq(aa.A, ba.A)
		}
	}
	if n > 4096 {
		panic(unsupported("BytesEqual over a large sub-range"))
	}
	cs := make([]*term.Term, n)
	for i := 0; i < n; i++ {
		x := st.load(e.elemPtr(a, c64(i))).(*term.Term)
		y := st.load(e.elemPtr(b, c64(i))).(*term.Term)
		cs[i] = term.Eq(x, y)
	}
	return term.And(cs...)
}

// invoke calls a method on an interface value.
func (e *Engine) invoke(st *State, recv *IfaceV, method string, args []Value, depth int) []Outcome {
	if recv.T == nil {
		return []Outcome{{St: st, Panic: &PanicInfo{Msg: "nil interface method call", Implicit: true}}}
	}
	if outs, ok := e.invokeModel(st, recv, method, args, depth); ok {
		return outs
	}
	ms := e.prog.MethodSets.MethodSet(recv.T)
	for i := 0; i < ms.Len(); i++ {
		sel := ms.At(i)
		if sel.Obj().Name() == method {
			fn := e.prog.MethodValue(sel)
			return e.call(st, fn, append([]Value{recv.V}, args...), nil, depth+1)
		}
	}
	panic(unsupported("method " + method + " not found on " + recv.T.String()))
}

// ---------------------------------------------------------------- printf model

type fmtDirective struct {
	flags  string
	width  int
	hasW   bool
	prec   int
	hasP   bool
	argIdx int // 1-based explicit index, 0 = sequential
	verb   byte
	cls    *hexClass // sign and digit count of a symbolic integer, fixed by a case split (Fprintf)
}

// hexClass: the sign and the number of significant hexadecimal digits of an integer argument.
type hexClass struct {
	neg    bool
	digits int
}

func (e *Engine) sprintf(st *State, format *StrV, argsS *SliceV) *StrV {
	return e.sprintfC(st, format, argsS, nil, nil)
}

// sprintfC: classes fixes the hexClass of arguments (by index); forkable (when non-nil) receives the
// indices of symbolic integer arguments whose rendering was left opaque for want of a class.
func (e *Engine) sprintfC(st *State, format *StrV, argsS *SliceV, classes map[int]hexClass, forkable *[]forkArg) *StrV {
	f, ok := format.Concrete()
	if !ok {
		panic(unsupported("Sprintf with symbolic format"))
	}
	var args []Value
	if argsS.Base != nil {
		n, _ := concreteInt(argsS.Len)
		for i := 0; i < n; i++ {
			args = append(args, st.load(e.elemPtr(argsS, c64(i))))
		}
	}
	var out []*term.Term
	opaque := false
	lit := func(s string) {
		for i := 0; i < len(s); i++ {
			out = append(out, term.Const(8, uint64(s[i])))
		}
	}
	next := 0
	for i := 0; i < len(f); {
		if f[i] != '%' {
			lit(f[i : i+1])
			i++
			continue
		}
		i++
		if i < len(f) && f[i] == '%' {
			lit("%")
			i++
			continue
		}
		var d fmtDirective
		for i < len(f) && strings.IndexByte("+-# 0", f[i]) >= 0 {
			d.flags += string(f[i])
			i++
		}
		parseIdx := func() {
			if i < len(f) && f[i] == '[' {
				j := strings.IndexByte(f[i:], ']')
				n, _ := strconv.Atoi(f[i+1 : i+j])
				d.argIdx = n
				i += j + 1
			}
		}
		parseIdx()
		for i < len(f) && f[i] >= '0' && f[i] <= '9' {
			d.width = d.width*10 + int(f[i]-'0')
			d.hasW = true
			i++
		}
		if i < len(f) && f[i] == '.' {
			i++
			d.hasP = true
			for i < len(f) && f[i] >= '0' && f[i] <= '9' {
				d.prec = d.prec*10 + int(f[i]-'0')
				i++
			}
		}
		parseIdx()
		if i >= len(f) {
			lit("%!(NOVERB)")
			break
		}
		d.verb = f[i]
		i++
		ai := next
		if d.argIdx > 0 {
			ai = d.argIdx - 1
		}
		next = ai + 1
		if ai >= len(args) {
			lit("%!" + string(d.verb) + "(BADINDEX)")
			continue
		}
		if c, ok := classes[ai]; ok {
			cc := c
			d.cls = &cc
		}
		bs, op := e.formatArg(st, d, args[ai])
		if op {
			opaque = true
			if forkable != nil && (d.verb == 'x' || d.verb == 'X') && !strings.Contains(d.flags, "#") && d.cls == nil {
				if iv, ok := args[ai].(*IfaceV); ok {
					if t, ok := iv.V.(*term.Term); ok && !t.IsBool() && !t.IsConst() {
						zw := 0
						if d.hasW && strings.Contains(d.flags, "0") && !strings.Contains(d.flags, "-") {
							zw = d.width
						}
						*forkable = append(*forkable, forkArg{ai, zw})
					}
				}
			}
		}
		out = append(out, bs...)
	}
	r := mkStr(out)
	if opaque {
		r = &StrV{B: r.bytes(), Opaque: true}
	}
	return r
}

func goDirective(d fmtDirective) string {
	s := "%" + d.flags
	if d.hasW {
		s += strconv.Itoa(d.width)
	}
	if d.hasP {
		s += "." + strconv.Itoa(d.prec)
	}
	return s + string(d.verb)
}

func litTerms(s string) []*term.Term {
	out := make([]*term.Term, len(s))
	for i := 0; i < len(s); i++ {
		out[i] = term.Const(8, uint64(s[i]))
	}
	return out
}

func hexDigit(n *term.Term, upper bool) *term.Term { // n: 4 bits
	n8 := term.ZExt(n, 8)
	a := byte('a')
	if upper {
		a = 'A'
	}
	return term.Ite(term.Ult(n8, term.Const(8, 10)), term.Add(n8, term.Const(8, '0')), term.Add(n8, term.Const(8, uint64(a-10))))
}

func (e *Engine) formatArg(st *State, d fmtDirective, a Value) (bs []*term.Term, opaque bool) {
	iv, ok := a.(*IfaceV)
	if !ok || iv.T == nil {
		return litTerms("<nil>"), false
	}
	pad := func(s []*term.Term) []*term.Term {
		if !d.hasW || len(s) >= d.width {
			return s
		}
		fill := litTerms(strings.Repeat(" ", d.width-len(s)))
		if strings.Contains(d.flags, "-") {
			return append(s, fill...)
		}
		return append(fill, s...)
	}
	switch v := iv.V.(type) {
	case *StrV:
		if v.Opaque {
			return pad(v.bytes()), true
		}
		if d.verb == 's' || d.verb == 'v' {
			return pad(v.bytes()), false
		}
		if s, ok := v.Concrete(); ok {
			return litTerms(fmt.Sprintf(goDirective(d), s)), false
		}
		panic(unsupported("format verb on symbolic string"))
	case *term.Term:
		if v.IsBool() {
			if v.IsConst() {
				return litTerms(fmt.Sprintf(goDirective(d), v.Val != 0)), false
			}
			return litTerms("<symbolic bool>"), true
		}
		_, signed, _ := intWidth(iv.T)
		if v.IsConst() {
			if signed {
				sh := uint(64 - v.W)
				return litTerms(fmt.Sprintf(goDirective(d), int64(v.Val<<sh)>>sh)), false
			}
			return litTerms(fmt.Sprintf(goDirective(d), v.Val)), false
		}
		if (d.verb == 'x' || d.verb == 'X') && !signed && strings.Contains(d.flags, "0") && d.hasW && !strings.Contains(d.flags, "#") {
			// exactly d.width digits when the value fits
			if d.width*4 >= 64 || term.UB(v) < uint64(1)<<uint(d.width*4) {
				digs := make([]*term.Term, d.width)
				vv := term.ZExt(v, 64)
				for k := 0; k < d.width; k++ {
					lo := 4 * (d.width - 1 - k)
					digs[k] = hexDigit(term.Extract(vv, lo+3, lo), d.verb == 'X')
				}
				return digs, false
			}
		}
		if (d.verb == 'x' || d.verb == 'X') && d.cls != nil && !strings.Contains(d.flags, "#") {
			mag := term.Resize(v, 64, signed)
			var out []*term.Term
			if d.cls.neg {
				mag = term.Neg(mag)
				out = append(out, term.Const(8, '-'))
			}
			nd := d.cls.digits
			if d.hasW && strings.Contains(d.flags, "0") && !strings.Contains(d.flags, "-") && d.width-len(out) > nd {
				nd = d.width - len(out) // zero padding counts the sign
			}
			for k := 0; k < nd; k++ {
				lo := 4 * (nd - 1 - k)
				if lo >= 64 {
					out = append(out, term.Const(8, '0'))
					continue
				}
				out = append(out, hexDigit(term.Extract(mag, lo+3, lo), d.verb == 'X'))
			}
			return pad(out), false
		}
		return litTerms("<symbolic number>"), true
	case *Ptr:
		// error values / Stringers are rendered through their message when known
		if v != nil {
			if msg, ok := e.errMsgs[v.Obj.ID]; ok {
				return pad(litTerms(msg)), strings.HasPrefix(msg, "<")
			}
		}
	}
	return litTerms("<value>"), true
}

// forkArg: an argument whose rendering needs a case split; zeroWidth is the zero-padded field width (0: none).
type forkArg struct {
	idx       int
	zeroWidth int
}

type fmtVariant struct {
	st  *State
	msg *StrV
}

// sprintfForks renders the format; where the text of a symbolic integer under %x depends on its sign
// or magnitude (it does not fit the zero-padded width, or there is no such width), the path is split
// by sign and number of hexadecimal digits - the length of the output is a structural property.
func (e *Engine) sprintfForks(st *State, format *StrV, argsS *SliceV, classes map[int]hexClass, depth int) []fmtVariant {
	var forkable []forkArg
	msg := e.sprintfC(st, format, argsS, classes, &forkable)
	if !msg.Opaque || len(forkable) == 0 || depth >= 3 {
		return []fmtVariant{{st, msg}}
	}
	ai, zw := forkable[0].idx, forkable[0].zeroWidth
	iv := st.load(e.elemPtr(argsS, c64(ai))).(*IfaceV)
	v := iv.V.(*term.Term)
	_, signed, _ := intWidth(iv.T)
	v64 := term.Resize(v, 64, signed)
	maxD := (v.W + 3) / 4
	type cand struct {
		c    hexClass
		cond *term.Term
	}
	var cs []cand
	// values of at most minD digits all render with minD digits (zero padding): one class
	rangeCond := func(mag *term.Term, lo, k int) *term.Term {
		// lo..k significant digits (lo == 1 also covers zero)
		var a, b *term.Term = term.True, term.True
		if lo > 1 {
			a = term.Not(term.Ult(mag, term.Const(64, uint64(1)<<uint(4*(lo-1)))))
		}
		if k < 16 {
			b = term.Ult(mag, term.Const(64, uint64(1)<<uint(4*k)))
		}
		return term.And(a, b)
	}
	classesOf := func(neg bool, mag *term.Term, guard *term.Term) {
		minD := 1
		if zw > 0 {
			minD = zw
			if neg {
				minD = zw - 1
			}
			if minD < 1 {
				minD = 1
			}
			if minD > maxD {
				minD = maxD
			}
		}
		cs = append(cs, cand{hexClass{neg, minD}, term.And(guard, rangeCond(mag, 1, minD))})
		for k := minD + 1; k <= maxD; k++ {
			cs = append(cs, cand{hexClass{neg, k}, term.And(guard, rangeCond(mag, k, k))})
		}
	}
	nonneg := term.True
	if signed {
		nonneg = term.Not(term.Slt(v64, term.Const(64, 0)))
		classesOf(true, term.Neg(v64), term.Not(nonneg))
	}
	classesOf(false, v64, nonneg)
	var res []fmtVariant
	for _, c := range cs {
		if c.cond == term.False {
			continue
		}
		ns := st.fork()
		ns.assume(c.cond)
		if ns.dead() || !e.feasible(ns) {
			continue
		}
		nc := map[int]hexClass{}
		for k, x := range classes {
			nc[k] = x
		}
		nc[ai] = c.c
		res = append(res, e.sprintfForks(ns, format, argsS, nc, depth+1)...)
	}
	return res
}
