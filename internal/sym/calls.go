package sym

import (
	"fmt"
	"go/types"
	"unicode/utf8"

	"golang.org/x/tools/go/ssa"

	"verif/internal/term"
)

func (e *Engine) doCall(rc *runCtx, st *State, fr *frame, x *ssa.Call) []cont {
	cc := x.Common()
	args := make([]Value, 0, len(cc.Args)+1)
	var fn *ssa.Function
	var bind []Value
	if cc.IsInvoke() {
		recv := e.get(st, fr, cc.Value).(*IfaceV)
		if recv.T == nil {
			e.require(rc, st, term.False, "nil pointer dereference (method call on nil interface)", x)
			return nil
		}
		if outs, ok := e.invokeModel(st, recv, cc.Method.Name(), e.argVals(st, fr, cc.Args), rc.depth); ok {
			return e.afterCall(rc, outs)
		}
		fn = e.prog.LookupMethod(recv.T, cc.Method.Pkg(), cc.Method.Name())
		if fn == nil {
			panic(unsupported(fmt.Sprintf("no method %s on %s", cc.Method.Name(), recv.T)))
		}
		args = append(args, recv.V)
	} else {
		switch f := cc.Value.(type) {
		case *ssa.Function:
			fn = f
		case *ssa.Builtin:
			return e.builtin(rc, st, fr, x, f.Name(), e.argVals(st, fr, cc.Args))
		default:
			fv := e.get(st, fr, cc.Value).(*FuncV)
			if fv.Fn == nil && fv.Name == "" {
				e.require(rc, st, term.False, "call of nil function", x)
				return nil
			}
			if fv.Fn == nil {
				panic(unsupported("call of intrinsic function value " + fv.Name))
			}
			fn, bind = fv.Fn, fv.Bind
		}
	}
	args = append(args, e.argVals(st, fr, cc.Args)...)
	outs := e.call(st, fn, args, bind, rc.depth+1)
	return e.afterCall(rc, outs)
}

func (e *Engine) argVals(st *State, fr *frame, as []ssa.Value) []Value {
	out := make([]Value, len(as))
	for i, a := range as {
		out[i] = e.get(st, fr, a)
	}
	return out
}

// afterCall routes panics to the caller's outcomes and returns the normal continuations.
func (e *Engine) afterCall(rc *runCtx, outs []Outcome) []cont {
	var cs []cont
	for _, o := range outs {
		if o.Panic != nil {
			rc.outs = append(rc.outs, o)
			continue
		}
		cs = append(cs, cont{o.St, o.Ret})
	}
	return cs
}

// ---------------------------------------------------------------- builtins

func (e *Engine) builtin(rc *runCtx, st *State, fr *frame, x *ssa.Call, name string, args []Value) []cont {
	switch name {
	case "len":
		switch a := args[0].(type) {
		case *SliceV:
			if a.Base == nil {
				return one(st, c64(0))
			}
			return one(st, a.Len)
		case *StrV:
			return one(st, c64(a.Len()))
		case *MapV:
			if a.Obj == nil {
				return one(st, c64(0))
			}
			return one(st, c64(len(st.root(a.Obj).(*MapData).K)))
		case *SymArrV:
			return one(st, c64(a.N))
		case *ArrV:
			return one(st, c64(len(a.E)))
		case *Ptr:
			n := x.Common().Args[0].Type().Underlying().(*types.Pointer).Elem().Underlying().(*types.Array).Len()
			return one(st, c64(int(n)))
		}
	case "cap":
		switch a := args[0].(type) {
		case *SliceV:
			if a.Base == nil {
				return one(st, c64(0))
			}
			return one(st, a.Cap)
		case *SymArrV:
			return one(st, c64(a.N))
		case *ArrV:
			return one(st, c64(len(a.E)))
		}
	case "append":
		return one(st, e.appendOp(st, args[0].(*SliceV), args[1], x))
	case "copy":
		return one(st, e.copyOp(st, args[0].(*SliceV), args[1], x))
	case "delete":
		m := args[0].(*MapV)
		if m.Obj == nil {
			return one(st, nil)
		}
		md := st.root(m.Obj).(*MapData)
		for i, k := range md.K {
			eq := e.keyEq(k, args[1])
			if eq == term.True {
				nd := &MapData{K: append(append([]Value(nil), md.K[:i]...), md.K[i+1:]...), V: append(append([]Value(nil), md.V[:i]...), md.V[i+1:]...)}
				st.written[m.Obj.ID] = true
				st.heap[m.Obj.ID] = nd
				break
			}
			if eq != term.False {
				panic(unsupported("delete with symbolic key"))
			}
		}
		return one(st, nil)
	case "print", "println":
		return one(st, nil)
	case "ssa:wrapnilchk":
		if p, ok := args[0].(*Ptr); ok && p == nil {
			e.require(rc, st, term.False, "nil pointer dereference (method value on nil)", x)
			return nil
		}
		return one(st, args[0])
	case "min", "max":
		r := args[0].(*term.Term)
		_, sg, _ := intWidth(x.Common().Args[0].Type())
		for _, a := range args[1:] {
			t := a.(*term.Term)
			var lt *term.Term
			if sg {
				lt = term.Slt(t, r)
			} else {
				lt = term.Ult(t, r)
			}
			if name == "max" {
				lt = term.Not(term.Or(lt, term.Eq(t, r)))
			}
			r = term.Ite(lt, t, r)
		}
		return one(st, r)
	}
	panic(unsupported(fmt.Sprintf("builtin %s(%T) at %s", name, args[0], e.pos(x))))
}

func (e *Engine) sliceElemType(x *ssa.Call, i int) types.Type {
	return x.Common().Args[i].Type().Underlying().(*types.Slice).Elem()
}

// srcElems reads n elements (concrete n) starting at element 0 of a slice or string.
func (e *Engine) srcElem(st *State, src Value, i int) Value {
	switch s := src.(type) {
	case *SliceV:
		return st.load(e.elemPtr(s, c64(i)))
	case *StrV:
		return s.bytes()[i]
	}
	panic(unsupported("copy/append source"))
}

func srcLen(src Value) *term.Term {
	switch s := src.(type) {
	case *SliceV:
		if s.Base == nil {
			return c64(0)
		}
		return s.Len
	case *StrV:
		if s.Opaque {
			panic(unsupported("append/copy of opaque string"))
		}
		return c64(s.Len())
	}
	panic(unsupported("length of copy/append source"))
}

func (e *Engine) appendOp(st *State, dst *SliceV, src Value, x *ssa.Call) Value {
	addT := srcLen(src)
	add, ok := concreteInt(addT)
	if !ok {
		panic(unsupported("append of symbolic length at " + e.pos(x)))
	}
	if add == 0 {
		return dst
	}
	et := e.sliceElemType(x, 0)
	if dst.Base == nil {
		dst = &SliceV{Base: nil, Off: c64(0), Len: c64(0), Cap: c64(0)}
	}
	ln, ok1 := concreteInt(dst.Len)
	cp, ok2 := concreteInt(dst.Cap)
	if !ok1 || !ok2 {
		panic(unsupported("append to slice of symbolic length at " + e.pos(x)))
	}
	// read sources first (they may alias the destination)
	vals := make([]Value, add)
	for i := 0; i < add; i++ {
		vals[i] = e.srcElem(st, src, i)
	}
	res := dst
	if ln+add > cp {
		// capacity growth as the gc runtime does it (growslice + malloc size classes), so that cap()
		// and the aliasing of spare capacity are what a native run sees
		ncap := goGrowCap(cp, ln+add, int(goSizes.Sizeof(et)))
		ns := e.makeSlice(st, et, ln+add, ncap, e.pos(x))
		for i := 0; i < ln; i++ {
			st.store(e.elemPtr(ns, c64(i)), st.load(e.elemPtr(dst, c64(i))))
		}
		res = ns
	} else {
		res = &SliceV{Base: dst.Base, Off: dst.Off, Len: c64(ln + add), Cap: dst.Cap}
	}
	for i := 0; i < add; i++ {
		st.store(e.elemPtr(res, c64(ln+i)), vals[i])
	}
	return res
}

func (e *Engine) copyOp(st *State, dst *SliceV, src Value, x *ssa.Call) Value {
	if dst.Base == nil {
		return c64(0)
	}
	sl := srcLen(src)
	dl := dst.Len
	n := term.Ite(term.Ult(sl, dl), sl, dl)
	if nc, ok := concreteInt(n); ok {
		vals := make([]Value, nc)
		for i := 0; i < nc; i++ {
			vals[i] = e.srcElem(st, src, i)
		}
		for i := 0; i < nc; i++ {
			st.store(e.elemPtr(dst, c64(i)), vals[i])
		}
		return n
	}
	// symbolic count: bounded guarded copy
	maxN := term.UB(n)
	if u := term.UB(sl); u < maxN {
		maxN = u
	}
	if u := term.UB(dl); u < maxN {
		maxN = u
	}
	if maxN > 256 {
		// the syntactic bound is too coarse: ask the solver whether the path condition bounds the count
		probe := st.fork()
		probe.assume(term.Ult(c64(256), n))
		if probe.dead() || !e.feasible(probe) {
			maxN = 256
		}
	}
	if maxN > 256 {
		panic(unsupported(fmt.Sprintf("copy with unbounded symbolic length (ub %d) at %s", maxN, e.pos(x))))
	}
	vals := make([]*term.Term, maxN)
	for i := 0; i < int(maxN); i++ {
		// reading beyond the source length is guarded away below; pointer arithmetic stays in the array term
		vals[i] = e.srcElem(st, src, i).(*term.Term)
	}
	for i := 0; i < int(maxN); i++ {
		p := e.elemPtr(dst, c64(i))
		old := st.load(p).(*term.Term)
		st.store(p, term.Ite(term.Ult(c64(i), n), vals[i], old))
	}
	return n
}

// ---------------------------------------------------------------- maps

func (e *Engine) keyEq(a, b Value) *term.Term {
	switch x := a.(type) {
	case *term.Term:
		return term.Eq(x, b.(*term.Term))
	case *StrV:
		return strEq(x, b.(*StrV))
	}
	return e.valuesEqual(a, b)
}

// mapFind returns continuations for looking up key: each yields (index or -1).
func (e *Engine) mapFind(st *State, md *MapData, key Value) []cont {
	var out []cont
	cur := st
	for i, k := range md.K {
		eq := e.keyEq(k, key)
		if eq == term.False {
			continue
		}
		if eq == term.True {
			out = append(out, cont{cur, i})
			return out
		}
		hit := cur.fork()
		hit.assume(eq)
		if e.feasible(hit) {
			out = append(out, cont{hit, i})
			e.stats.Forks++
		}
		cur.assume(term.Not(eq))
	}
	if !cur.dead() {
		out = append(out, cont{cur, -1})
	}
	return out
}

func (e *Engine) lookup(rc *runCtx, st *State, fr *frame, x *ssa.Lookup) []cont {
	base := e.get(st, fr, x.X)
	if s, ok := base.(*StrV); ok {
		i := e.get(st, fr, x.Index).(*term.Term)
		_, sg, _ := intWidth(x.Index.Type())
		return e.strIndex(rc, st, s, term.Resize(i, 64, sg), x)
	}
	m := base.(*MapV)
	vt := x.X.Type().Underlying().(*types.Map).Elem()
	key := e.get(st, fr, x.Index)
	mk := func(s *State, v Value, ok bool) cont {
		if x.CommaOk {
			return cont{s, &TupleV{E: []Value{v, term.Bool(ok)}}}
		}
		return cont{s, v}
	}
	if m.Obj == nil {
		return []cont{mk(st, e.zero(vt), false)}
	}
	md := st.root(m.Obj).(*MapData)
	var out []cont
	for _, c := range e.mapFind(st, md, key) {
		i := c.val.(int)
		if i < 0 {
			out = append(out, mk(c.st, e.zero(vt), false))
		} else {
			out = append(out, mk(c.st, md.V[i], true))
		}
	}
	return out
}

func (e *Engine) mapUpdate(rc *runCtx, st *State, fr *frame, x *ssa.MapUpdate) []cont {
	m := e.get(st, fr, x.Map).(*MapV)
	if m.Obj == nil {
		e.require(rc, st, term.False, "assignment to entry in nil map", x)
		return nil
	}
	key, val := e.get(st, fr, x.Key), e.get(st, fr, x.Value)
	md := st.root(m.Obj).(*MapData)
	var out []cont
	for _, c := range e.mapFind(st, md, key) {
		i := c.val.(int)
		var nd *MapData
		if i < 0 {
			nd = &MapData{K: append(append([]Value(nil), md.K...), key), V: append(append([]Value(nil), md.V...), val)}
		} else {
			nv := append([]Value(nil), md.V...)
			nv[i] = val
			nd = &MapData{K: md.K, V: nv}
		}
		c.st.written[m.Obj.ID] = true
		c.st.heap[m.Obj.ID] = nd
		out = append(out, cont{c.st, nil})
	}
	return out
}

// ---------------------------------------------------------------- range

func permutations(n int) [][]int {
	if n <= 1 {
		return [][]int{{0}}[:n]
	}
	var out [][]int
	var rec func(cur []int, used []bool)
	rec = func(cur []int, used []bool) {
		if len(cur) == n {
			out = append(out, append([]int(nil), cur...))
			return
		}
		for i := 0; i < n; i++ {
			if !used[i] {
				used[i] = true
				rec(append(cur, i), used)
				used[i] = false
			}
		}
	}
	rec(nil, make([]bool, n))
	return out
}

func (e *Engine) rangeInit(rc *runCtx, st *State, fr *frame, x *ssa.Range) []cont {
	v := e.get(st, fr, x.X)
	switch m := v.(type) {
	case *StrV:
		if _, ok := m.Concrete(); !ok {
			panic(unsupported("range over symbolic string"))
		}
		o := e.newObject(st, types.Typ[types.Int], e.pos(x), c64(0))
		return one(st, &IterV{Str: m, Obj: o})
	case *MapV:
		o := e.newObject(st, types.Typ[types.Int], e.pos(x), c64(0))
		if m.Obj == nil {
			return one(st, &IterV{Map: m, Obj: o})
		}
		md := st.root(m.Obj).(*MapData)
		n := len(md.K)
		if e.PermuteMaps && e.Concrete == nil && n >= 2 && n <= 3 {
			var out []cont
			for pi, perm := range permutations(n) {
				ks := make([]Value, n)
				for i, j := range perm {
					ks[i] = md.K[j]
				}
				ns := st
				if pi > 0 {
					ns = st.fork()
					o2 := e.newObject(ns, types.Typ[types.Int], e.pos(x), c64(0))
					ns.choices = append(ns.choices[:len(ns.choices):len(ns.choices)], Choice{fmt.Sprintf("maporder@%s", e.pos(x)), pi})
					out = append(out, cont{ns, &IterV{Map: m, Keys: ks, Obj: o2}})
					continue
				}
				out = append(out, cont{ns, &IterV{Map: m, Keys: ks, Obj: o}})
			}
			st.choices = append(st.choices[:len(st.choices):len(st.choices)], Choice{fmt.Sprintf("maporder@%s", e.pos(x)), 0})
			e.stats.Forks += len(out) - 1
			return out
		}
		return one(st, &IterV{Map: m, Keys: append([]Value(nil), md.K...), Obj: o})
	}
	panic(unsupported(fmt.Sprintf("range over %T", v)))
}

func (e *Engine) rangeNext(st *State, fr *frame, x *ssa.Next) []cont {
	it := e.get(st, fr, x.Iter).(*IterV)
	pos, _ := concreteInt(st.heap[it.Obj.ID])
	tup := x.Type().(*types.Tuple)
	zeroOf := func(t types.Type) Value {
		if b, ok := t.(*types.Basic); ok && b.Kind() == types.Invalid {
			return nil // a blank range variable
		}
		return e.zero(t)
	}
	done := func() []cont {
		return one(st, &TupleV{E: []Value{term.False, zeroOf(tup.At(1).Type()), zeroOf(tup.At(2).Type())}})
	}
	if it.Str != nil {
		s, _ := it.Str.Concrete()
		if pos >= len(s) {
			return done()
		}
		r, size := utf8.DecodeRuneInString(s[pos:]) // what the Go range statement does (RuneError, width 1 on bad UTF-8)
		st.heap[it.Obj.ID] = c64(pos + size)
		return one(st, &TupleV{E: []Value{term.True, c64(pos), term.Const(32, uint64(r))}})
	}
	if it.Map.Obj == nil {
		return done()
	}
	md := st.root(it.Map.Obj).(*MapData)
	for pos < len(it.Keys) {
		k := it.Keys[pos]
		pos++
		for i, mk := range md.K {
			if mk == k || sameValue(mk, k) {
				st.heap[it.Obj.ID] = c64(pos)
				return one(st, &TupleV{E: []Value{term.True, k, md.V[i]}})
			}
		}
	}
	st.heap[it.Obj.ID] = c64(pos)
	return done()
}

var goSizes = types.SizesFor("gc", "amd64")

var sizeClasses = []int{8, 16, 24, 32, 48, 64, 80, 96, 112, 128, 144, 160, 176, 192, 208, 224, 240, 256, 288, 320, 352, 384, 416, 448, 480, 512, 576, 640, 704, 768, 896, 1024,
	1152, 1280, 1408, 1536, 1792, 2048, 2304, 2688, 3072, 3200, 3456, 4096, 4864, 5120, 5376, 6144, 6528, 6784, 6912, 8192, 9472, 9728, 10240, 10880, 12288, 13568, 14336, 16384,
	18432, 19072, 20480, 21760, 24576, 27264, 28672, 32768}

// goGrowCap mirrors runtime.growslice of Go 1.2x: the new capacity for growing a slice of capacity
// oldCap to at least newLen elements of elemSize bytes.
func goGrowCap(oldCap, newLen, elemSize int) int {
	newcap := oldCap
	doublecap := newcap + newcap
	if newLen > doublecap {
		newcap = newLen
	} else {
		const threshold = 256
		if oldCap < threshold {
			newcap = doublecap
		} else {
			for 0 < newcap && newcap < newLen {
				newcap += (newcap + 3*threshold) >> 2
			}
			if newcap <= 0 {
				newcap = newLen
			}
		}
	}
	if elemSize <= 0 {
		return newcap
	}
	mem := newcap * elemSize
	rounded := mem
	if mem <= 32768 {
		for _, c := range sizeClasses {
			if c >= mem {
				rounded = c
				break
			}
		}
	} else {
		rounded = (mem + 8191) &^ 8191
	}
	return rounded / elemSize
}
