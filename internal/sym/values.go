// Package sym is a symbolic executor for Go programs in go/ssa form ("gosym").
// Values are immutable trees over hash-consed SMT terms; heaps are per-path slices
// indexed by object id, copied on fork; paths are merged at call return.
package sym

import (
	"fmt"
	"go/types"
	"strings"

	"golang.org/x/tools/go/ssa"

	"verif/internal/term"
)

type Value interface{}

// Object is an allocation; its contents live in State.heap[ID].
type Object struct {
	ID     int
	Type   types.Type // type of the contents
	Site   string
	Global string // non-empty: package-level variable name (or reachable-from marker)
	Opaque string // non-empty: opaque singleton (e.g. "io.EOF")
	Init   Value  // initial contents for objects that exist on every path (globals, opaque errors)
}

// Step selects a field or an element. Sym != nil means a symbolic element index (64-bit term)
// into a SymArrV; Rep marks a representative of a symbolic index range (read-only).
type Step struct {
	Idx int
	Sym *term.Term
	Rep bool
}

// Ptr is a pointer to a location inside an object. A nil *Ptr is the nil pointer.
type Ptr struct {
	Obj  *Object
	Path []Step
}

func (p *Ptr) child(s Step) *Ptr {
	np := make([]Step, len(p.Path)+1)
	copy(np, p.Path)
	np[len(p.Path)] = s
	return &Ptr{Obj: p.Obj, Path: np}
}

func samePtr(a, b *Ptr) bool {
	if a == nil || b == nil {
		return a == b
	}
	if a.Obj != b.Obj || len(a.Path) != len(b.Path) {
		return false
	}
	for i := range a.Path {
		if a.Path[i].Idx != b.Path[i].Idx {
			return false
		}
		if sa, sb := a.Path[i].Sym, b.Path[i].Sym; sa != sb && (sa == nil || sb == nil || !term.Same(sa, sb)) {
			return false
		}
	}
	return true
}

type StructV struct{ F []Value }
type ArrV struct{ E []Value }

// BigArrV is a large array of non-scalar elements, mutated in place by its owning epoch.
type BigArrV struct {
	owner *epoch
	E     []Value
	runs  []int // cached run starts (indices where the value changes); nil = not computed
}

// SymArrV is an array of N integers held as one SMT array term (index width 32).
type SymArrV struct {
	A *term.Term
	N int
}

// SliceV: Base == nil is the nil slice. Off/Len/Cap are 64-bit terms.
type SliceV struct {
	Base          *Ptr
	Off, Len, Cap *term.Term
}

// StrV is a string of concrete length; B == nil means the concrete string S.
type StrV struct {
	S      string
	B      []*term.Term
	Opaque bool // content is a placeholder (symbolic %d etc.); inspecting it is unsupported
}

type IfaceV struct {
	T types.Type // nil => nil interface
	V Value
}

type FuncV struct {
	Fn   *ssa.Function
	Bind []Value
	Name string // for intrinsic function values
}

type MapV struct{ Obj *Object } // Obj == nil => nil map

type MapData struct {
	K []Value
	V []Value
}

type TupleV struct{ E []Value }

// ReflectV models reflect.Value.
type ReflectV struct {
	T        types.Type
	Addr     *Ptr  // location, if addressable
	V        Value // value, if not addressable
	Exported bool
}

// ReflectTypeV models reflect.Type.
type ReflectTypeV struct{ T types.Type }

// IterV is a map/string range iterator.
type IterV struct {
	Map  *MapV
	Keys []Value
	Str  *StrV
	Pos  int
	Obj  *Object // iterator position lives in the heap so that forks stay independent
}

type epoch struct{ n int }

var nilIface = &IfaceV{}
var nilFunc = &FuncV{}

// ---------------------------------------------------------------- types

func intWidth(t types.Type) (w int, signed bool, ok bool) {
	b, isb := t.Underlying().(*types.Basic)
	if !isb {
		return 0, false, false
	}
	switch b.Kind() {
	case types.Int8:
		return 8, true, true
	case types.Int16:
		return 16, true, true
	case types.Int32:
		return 32, true, true
	case types.Int64, types.Int:
		return 64, true, true
	case types.Uint8:
		return 8, false, true
	case types.Uint16:
		return 16, false, true
	case types.Uint32:
		return 32, false, true
	case types.Uint64, types.Uint, types.Uintptr:
		return 64, false, true
	case types.UntypedInt, types.UntypedRune:
		return 64, true, true
	}
	return 0, false, false
}

func isBoolType(t types.Type) bool {
	b, ok := t.Underlying().(*types.Basic)
	return ok && b.Info()&types.IsBoolean != 0
}

func isStringType(t types.Type) bool {
	b, ok := t.Underlying().(*types.Basic)
	return ok && b.Info()&types.IsString != 0
}

const bigArrayThreshold = 1024

// zero builds the zero value of a type.
func (e *Engine) zero(t types.Type) Value {
	switch u := t.Underlying().(type) {
	case *types.Basic:
		if w, _, ok := intWidth(t); ok {
			return term.Const(w, 0)
		}
		if u.Info()&types.IsBoolean != 0 {
			return term.False
		}
		if u.Info()&types.IsString != 0 {
			return &StrV{}
		}
		if u.Kind() == types.UnsafePointer {
			return (*Ptr)(nil)
		}
		panic(unsupported("zero value of basic type " + t.String()))
	case *types.Pointer:
		return (*Ptr)(nil)
	case *types.Struct:
		f := make([]Value, u.NumFields())
		for i := range f {
			f[i] = e.zero(u.Field(i).Type())
		}
		return &StructV{F: f}
	case *types.Array:
		n := int(u.Len())
		if w, _, ok := intWidth(u.Elem()); ok {
			return &SymArrV{A: term.ConstArr(w, term.Const(w, 0)), N: n}
		}
		if n >= bigArrayThreshold {
			z := e.zero(u.Elem())
			el := make([]Value, n)
			for i := range el {
				el[i] = z
			}
			return &BigArrV{E: el}
		}
		el := make([]Value, n)
		for i := range el {
			el[i] = e.zero(u.Elem())
		}
		return &ArrV{E: el}
	case *types.Slice:
		return &SliceV{}
	case *types.Map:
		return &MapV{}
	case *types.Interface:
		return nilIface
	case *types.Signature:
		return nilFunc
	case *types.Chan:
		return (*Ptr)(nil)
	case *types.Tuple:
		el := make([]Value, u.Len())
		for i := range el {
			el[i] = e.zero(u.At(i).Type())
		}
		return &TupleV{E: el}
	}
	panic(unsupported("zero value of " + t.String()))
}

type unsupportedErr struct{ msg string }

func (u unsupportedErr) Error() string { return "unsupported: " + u.msg }
func unsupported(msg string) error     { return unsupportedErr{msg} }

// sameValue is structural identity of two values (no solver).
func sameValue(a, b Value) bool {
	if a == b {
		return true
	}
	switch x := a.(type) {
	case *term.Term:
		y, ok := b.(*term.Term)
		return ok && term.Same(x, y)
	case *Ptr:
		y, ok := b.(*Ptr)
		return ok && samePtr(x, y)
	case *IfaceV:
		y, ok := b.(*IfaceV)
		if !ok {
			return false
		}
		if x.T == nil || y.T == nil {
			return x.T == nil && y.T == nil
		}
		return types.Identical(x.T, y.T) && sameValue(x.V, y.V)
	case *FuncV:
		y, ok := b.(*FuncV)
		if !ok || x.Fn != y.Fn || x.Name != y.Name || len(x.Bind) != len(y.Bind) {
			return false
		}
		for i := range x.Bind {
			if !sameValue(x.Bind[i], y.Bind[i]) {
				return false
			}
		}
		return true
	case *StructV:
		y, ok := b.(*StructV)
		if !ok || len(x.F) != len(y.F) {
			return false
		}
		for i := range x.F {
			if !sameValue(x.F[i], y.F[i]) {
				return false
			}
		}
		return true
	case *SliceV:
		y, ok := b.(*SliceV)
		return ok && samePtr(x.Base, y.Base) && term.Same(x.Off, y.Off) && term.Same(x.Len, y.Len) && term.Same(x.Cap, y.Cap)
	case *StrV:
		y, ok := b.(*StrV)
		if !ok {
			return false
		}
		if x.B == nil && y.B == nil {
			return x.S == y.S
		}
		xb, yb := x.bytes(), y.bytes()
		if len(xb) != len(yb) {
			return false
		}
		for i := range xb {
			if xb[i] != yb[i] {
				return false
			}
		}
		return true
	case *MapV:
		y, ok := b.(*MapV)
		return ok && x.Obj == y.Obj
	case *SymArrV:
		y, ok := b.(*SymArrV)
		return ok && x.A == y.A && x.N == y.N
	}
	return false
}

func (s *StrV) Len() int {
	if s.B != nil {
		return len(s.B)
	}
	return len(s.S)
}

func (s *StrV) bytes() []*term.Term {
	if s.B != nil {
		return s.B
	}
	out := make([]*term.Term, len(s.S))
	for i := 0; i < len(s.S); i++ {
		out[i] = term.Const(8, uint64(s.S[i]))
	}
	return out
}

// Concrete returns the Go string if every byte is constant.
func (s *StrV) Concrete() (string, bool) {
	if s.B == nil {
		return s.S, true
	}
	var sb strings.Builder
	for _, b := range s.B {
		if !b.IsConst() {
			return "", false
		}
		sb.WriteByte(byte(b.Val))
	}
	return sb.String(), true
}

func mkStr(bs []*term.Term) *StrV {
	s := &StrV{B: bs}
	if c, ok := s.Concrete(); ok {
		return &StrV{S: c}
	}
	return s
}

func describe(v Value) string {
	switch x := v.(type) {
	case nil:
		return "<nil>"
	case *term.Term:
		return x.String()
	case *Ptr:
		if x == nil {
			return "nil-ptr"
		}
		return fmt.Sprintf("&obj%d%v", x.Obj.ID, x.Path)
	case *StrV:
		if c, ok := x.Concrete(); ok {
			return fmt.Sprintf("%q", c)
		}
		return fmt.Sprintf("<sym string len %d>", x.Len())
	case *IfaceV:
		if x.T == nil {
			return "nil-iface"
		}
		return "iface(" + x.T.String() + ")"
	}
	return fmt.Sprintf("%T", v)
}
