package sym

import (
	"fmt"
	"go/types"

	"verif/internal/term"
)

// State is one symbolic path.
type State struct {
	heap    []Value
	pc      []*term.Term // path condition conjuncts (assumptions included)
	ep      *epoch
	choices []Choice // structural choices taken on this path (vp.Choose, map orders)
	tags    map[string]*term.Term
	obs     []Observation
	written map[int]bool // ids of objects written on this path (write-set monitor)
	steps   int
	symBack int // symbolically feasible loop back edges taken on this path
}

type Choice struct {
	Name string
	Val  int
}

type Observation struct {
	Name string
	Val  Value
}

func newState() *State {
	return &State{ep: &epoch{}, tags: map[string]*term.Term{}, written: map[int]bool{}}
}

// fork returns an independent copy; the receiver stays usable.
func (st *State) fork() *State {
	n := &State{
		heap:    append([]Value(nil), st.heap...),
		pc:      st.pc[:len(st.pc):len(st.pc)],
		ep:      &epoch{},
		choices: st.choices[:len(st.choices):len(st.choices)],
		tags:    map[string]*term.Term{},
		obs:     st.obs[:len(st.obs):len(st.obs)],
		written: map[int]bool{},
		steps:   st.steps,
		symBack: st.symBack,
	}
	for k, v := range st.tags {
		n.tags[k] = v
	}
	for k := range st.written {
		n.written[k] = true
	}
	st.ep = &epoch{} // shared big arrays are no longer exclusively owned by either side
	return n
}

func (st *State) pcTerm() *term.Term { return term.And(st.pc...) }

func (st *State) assume(c *term.Term) {
	if c == term.True {
		return
	}
	st.pc = append(st.pc[:len(st.pc):len(st.pc)], c)
}

func (st *State) dead() bool {
	for _, c := range st.pc {
		if c == term.False {
			return true
		}
	}
	if n := len(st.pc); n >= 2 {
		// the newest conjunct contradicting an earlier one (x and not x) is the common case
		last := st.pc[n-1]
		for _, c := range st.pc[:n-1] {
			if (last.K == term.KNot && last.Args[0] == c) || (c.K == term.KNot && c.Args[0] == last) {
				return true
			}
		}
	}
	return false
}

func (e *Engine) newObject(st *State, t types.Type, site string, v Value) *Object {
	e.nextObj++
	o := &Object{ID: e.nextObj, Type: t, Site: site}
	e.objs[o.ID] = o
	st.setHeap(o.ID, v)
	e.stats.Objects++
	return o
}

func (st *State) setHeap(id int, v Value) {
	for len(st.heap) <= id {
		st.heap = append(st.heap, nil)
	}
	st.heap[id] = v
}

func (st *State) root(o *Object) Value {
	if o.ID >= len(st.heap) || st.heap[o.ID] == nil {
		if o.Init != nil {
			st.setHeap(o.ID, o.Init)
			return o.Init
		}
		panic(unsupported(fmt.Sprintf("object %d (%s) not present on this path", o.ID, o.Site)))
	}
	return st.heap[o.ID]
}

func idx32(s Step) *term.Term {
	if s.Sym != nil {
		return term.Extract(s.Sym, 31, 0)
	}
	return term.Const(32, uint64(s.Idx))
}

func (st *State) load(p *Ptr) Value {
	if p == nil {
		panic(unsupported("load through nil pointer (should have been checked)"))
	}
	v := st.root(p.Obj)
	for _, s := range p.Path {
		v = elemOf(v, s)
	}
	return v
}

func elemOf(v Value, s Step) Value {
	switch x := v.(type) {
	case *StructV:
		return x.F[s.Idx]
	case *ArrV:
		if s.Sym != nil {
			panic(unsupported("symbolic index into element array"))
		}
		return x.E[s.Idx]
	case *BigArrV:
		if s.Sym != nil {
			panic(unsupported("symbolic index into big element array"))
		}
		return x.E[s.Idx]
	case *SymArrV:
		return term.Select(x.A, idx32(s))
	}
	panic(unsupported(fmt.Sprintf("path step into %T", v)))
}

func (st *State) store(p *Ptr, v Value) {
	if p == nil {
		panic(unsupported("store through nil pointer (should have been checked)"))
	}
	st.written[p.Obj.ID] = true
	nv := st.update(st.root(p.Obj), p.Path, v)
	st.heap[p.Obj.ID] = nv
}

func (st *State) update(node Value, path []Step, v Value) Value {
	if len(path) == 0 {
		return v
	}
	s := path[0]
	if s.Rep {
		panic(unsupported("store through a representative of a symbolic index range"))
	}
	switch x := node.(type) {
	case *StructV:
		f := append([]Value(nil), x.F...)
		f[s.Idx] = st.update(f[s.Idx], path[1:], v)
		return &StructV{F: f}
	case *ArrV:
		if s.Sym != nil {
			panic(unsupported("symbolic index store into element array"))
		}
		el := append([]Value(nil), x.E...)
		el[s.Idx] = st.update(el[s.Idx], path[1:], v)
		return &ArrV{E: el}
	case *BigArrV:
		if s.Sym != nil {
			panic(unsupported("symbolic index store into big element array"))
		}
		if x.owner == st.ep {
			x.E[s.Idx] = st.update(x.E[s.Idx], path[1:], v)
			x.runs = nil
			return x
		}
		el := append([]Value(nil), x.E...)
		el[s.Idx] = st.update(el[s.Idx], path[1:], v)
		return &BigArrV{owner: st.ep, E: el}
	case *SymArrV:
		if len(path) != 1 {
			panic(unsupported("nested path below integer array"))
		}
		t, ok := v.(*term.Term)
		if !ok {
			panic(unsupported("non-scalar store into integer array"))
		}
		return &SymArrV{A: term.Store(x.A, idx32(s), t), N: x.N}
	}
	panic(unsupported(fmt.Sprintf("store path step into %T", node)))
}

// ---------------------------------------------------------------- merging

// commonPrefix returns the length of the shared pc prefix.
func commonPrefix(a, b []*term.Term) int {
	n := 0
	for n < len(a) && n < len(b) && a[n] == b[n] {
		n++
	}
	return n
}

// mergeStates merges b into a under condition "a's extra path condition"; returns nil if not mergeable.
// extra carries per-outcome values (results) to merge alongside.
func mergeStates(a, b *State, va, vb Value) (*State, Value, bool) {
	k := commonPrefix(a.pc, b.pc)
	ca := term.And(a.pc[k:]...)
	cb := term.And(b.pc[k:]...)
	if ca == term.False {
		return b, vb, true
	}
	if cb == term.False {
		return a, va, true
	}
	cond := ca
	mv, ok := mergeValue(cond, va, vb)
	if !ok {
		return nil, nil, false
	}
	n := len(a.heap)
	if len(b.heap) > n {
		n = len(b.heap)
	}
	heap := make([]Value, n)
	for i := 0; i < n; i++ {
		var x, y Value
		if i < len(a.heap) {
			x = a.heap[i]
		}
		if i < len(b.heap) {
			y = b.heap[i]
		}
		switch {
		case x == nil:
			heap[i] = y
		case y == nil:
			heap[i] = x
		case x == y:
			heap[i] = x
		default:
			m, ok := mergeValue(cond, x, y)
			if !ok {
				return nil, nil, false
			}
			heap[i] = m
		}
	}
	// choices must agree (structural choices are never merged away)
	if len(a.choices) != len(b.choices) {
		return nil, nil, false
	}
	for i := range a.choices {
		if a.choices[i] != b.choices[i] {
			return nil, nil, false
		}
	}
	if len(a.obs) != len(b.obs) {
		return nil, nil, false
	}
	obs := make([]Observation, len(a.obs))
	for i := range a.obs {
		if a.obs[i].Name != b.obs[i].Name {
			return nil, nil, false
		}
		m, ok := mergeValue(cond, a.obs[i].Val, b.obs[i].Val)
		if !ok {
			return nil, nil, false
		}
		obs[i] = Observation{a.obs[i].Name, m}
	}
	st := &State{heap: heap, ep: &epoch{}, choices: a.choices, obs: obs, tags: map[string]*term.Term{}, written: map[int]bool{}}
	st.pc = append(append([]*term.Term(nil), a.pc[:k]...), term.Or(ca, cb))
	if last := st.pc[len(st.pc)-1]; last == term.True {
		st.pc = st.pc[:len(st.pc)-1]
	} else if last.K == term.KAnd {
		st.pc = append(st.pc[:len(st.pc)-1], last.Args...)
	}
	for k2, v := range a.tags {
		st.tags[k2] = v
	}
	for k2, v := range b.tags {
		if old, ok := st.tags[k2]; ok && old != v {
			st.tags[k2] = term.Ite(cond, old, v)
		} else {
			st.tags[k2] = v
		}
	}
	for k2 := range a.written {
		st.written[k2] = true
	}
	for k2 := range b.written {
		st.written[k2] = true
	}
	if a.steps > b.steps {
		st.steps = a.steps
	} else {
		st.steps = b.steps
	}
	if a.symBack > b.symBack {
		st.symBack = a.symBack
	} else {
		st.symBack = b.symBack
	}
	a.ep, b.ep = &epoch{}, &epoch{}
	return st, mv, true
}

func mergeValue(c *term.Term, x, y Value) (Value, bool) {
	if x == y {
		return x, true
	}
	switch a := x.(type) {
	case nil:
		return nil, y == nil
	case *frameV:
		b := y.(*frameV)
		out := make([]Value, len(a.L))
		for i := range out {
			switch {
			case a.L[i] == nil:
				out[i] = b.L[i]
			case b.L[i] == nil || a.L[i] == b.L[i]:
				out[i] = a.L[i]
			default:
				m, ok := mergeValue(c, a.L[i], b.L[i])
				if !ok {
					return nil, false
				}
				out[i] = m
			}
		}
		return &frameV{out}, true
	case *term.Term:
		b, ok := y.(*term.Term)
		if !ok || !a.SameSort(b) {
			return nil, false
		}
		return term.Ite(c, a, b), true
	case *StructV:
		b, ok := y.(*StructV)
		if !ok || len(a.F) != len(b.F) {
			return nil, false
		}
		f := make([]Value, len(a.F))
		for i := range f {
			m, ok := mergeValue(c, a.F[i], b.F[i])
			if !ok {
				return nil, false
			}
			f[i] = m
		}
		return &StructV{F: f}, true
	case *ArrV:
		b, ok := y.(*ArrV)
		if !ok || len(a.E) != len(b.E) {
			return nil, false
		}
		el := make([]Value, len(a.E))
		for i := range el {
			m, ok := mergeValue(c, a.E[i], b.E[i])
			if !ok {
				return nil, false
			}
			el[i] = m
		}
		return &ArrV{E: el}, true
	case *BigArrV:
		b, ok := y.(*BigArrV)
		if !ok || len(a.E) != len(b.E) {
			return nil, false
		}
		if &a.E[0] == &b.E[0] {
			return a, true
		}
		el := make([]Value, len(a.E))
		for i := range el {
			if a.E[i] == b.E[i] {
				el[i] = a.E[i]
				continue
			}
			m, ok := mergeValue(c, a.E[i], b.E[i])
			if !ok {
				return nil, false
			}
			el[i] = m
		}
		return &BigArrV{E: el}, true
	case *SymArrV:
		b, ok := y.(*SymArrV)
		if !ok || a.N != b.N || a.A.W != b.A.W {
			return nil, false
		}
		return &SymArrV{A: term.Ite(c, a.A, b.A), N: a.N}, true
	case *SliceV:
		b, ok := y.(*SliceV)
		if !ok || !samePtr(a.Base, b.Base) {
			return nil, false
		}
		if a.Base == nil {
			return a, true
		}
		// slices of different extent are not merged: a length that depends on the path taken would
		// be symbolic, and almost nothing can be done with such a slice
		if !term.Same(a.Off, b.Off) || !term.Same(a.Len, b.Len) || !term.Same(a.Cap, b.Cap) {
			return nil, false
		}
		return a, true
	case *Ptr:
		b, ok := y.(*Ptr)
		if !ok {
			return nil, false
		}
		if samePtr(a, b) {
			return a, true
		}
		// same object, same shape, differing only in symbolic/concrete element indices of integer arrays
		if a != nil && b != nil && a.Obj == b.Obj && len(a.Path) == len(b.Path) {
			np := make([]Step, len(a.Path))
			for i := range a.Path {
				sa, sb := a.Path[i], b.Path[i]
				if sa.Idx == sb.Idx && sa.Sym == sb.Sym {
					np[i] = sa
					continue
				}
				if i != len(a.Path)-1 || sa.Rep || sb.Rep {
					return nil, false
				}
				ta, tb := stepTerm(sa), stepTerm(sb)
				np[i] = Step{Sym: term.Ite(c, ta, tb)}
			}
			// only valid for integer-array elements; checked at use
			return &Ptr{Obj: a.Obj, Path: np}, true
		}
		return nil, false
	case *IfaceV:
		b, ok := y.(*IfaceV)
		if !ok {
			return nil, false
		}
		if a.T == nil || b.T == nil {
			if a.T == nil && b.T == nil {
				return a, true
			}
			return nil, false
		}
		if !types.Identical(a.T, b.T) {
			return nil, false
		}
		m, ok := mergeValue(c, a.V, b.V)
		if !ok {
			return nil, false
		}
		return &IfaceV{T: a.T, V: m}, true
	case *StrV:
		b, ok := y.(*StrV)
		if !ok || a.Len() != b.Len() {
			return nil, false
		}
		if sameValue(a, b) {
			return a, true
		}
		ab, bb := a.bytes(), b.bytes()
		out := make([]*term.Term, len(ab))
		for i := range out {
			out[i] = term.Ite(c, ab[i], bb[i])
		}
		return &StrV{B: out, Opaque: a.Opaque || b.Opaque}, true
	case *FuncV:
		if sameValue(x, y) {
			return x, true
		}
		return nil, false
	case *MapV:
		b, ok := y.(*MapV)
		if ok && a.Obj == b.Obj {
			return a, true
		}
		return nil, false
	case *MapData:
		b, ok := y.(*MapData)
		if !ok || len(a.K) != len(b.K) {
			return nil, false
		}
		vs := make([]Value, len(a.V))
		for i := range a.K {
			if !sameValue(a.K[i], b.K[i]) {
				return nil, false
			}
			m, ok := mergeValue(c, a.V[i], b.V[i])
			if !ok {
				return nil, false
			}
			vs[i] = m
		}
		return &MapData{K: a.K, V: vs}, true
	case *TupleV:
		b, ok := y.(*TupleV)
		if !ok || len(a.E) != len(b.E) {
			return nil, false
		}
		el := make([]Value, len(a.E))
		for i := range el {
			m, ok := mergeValue(c, a.E[i], b.E[i])
			if !ok {
				return nil, false
			}
			el[i] = m
		}
		return &TupleV{E: el}, true
	case *IterV:
		if x == y {
			return x, true
		}
		return nil, false
	case *ReflectV, *ReflectTypeV:
		return nil, false
	}
	return nil, false
}

func stepTerm(s Step) *term.Term {
	if s.Sym != nil {
		return s.Sym
	}
	return term.Const(64, uint64(s.Idx))
}
