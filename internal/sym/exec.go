package sym

import (
	"time"
	"fmt"
	"go/constant"
	"go/token"
	"go/types"

	"golang.org/x/tools/go/ssa"

	"verif/internal/smt"
	"verif/internal/term"
)

type PanicInfo struct {
	Msg      string
	Val      Value
	Implicit bool // raised by a Go runtime check (index, nil, division...)
	Site     string
}

type Outcome struct {
	St    *State
	Ret   Value
	Panic *PanicInfo
}

// preInstr is the pre-decoded operand list of one instruction: for operand k (in Operands order)
// either a frame slot (ops[k] >= 0) or a cached constant.
type preInstr struct {
	vals   []ssa.Value
	ops    []int32
	consts []Value
	slot   int32 // frame slot defined by the instruction, -1 if none
}

type fnInfo struct {
	idx   map[ssa.Value]int
	n     int
	pre   [][]*preInstr
	ipdom []*ssa.BasicBlock // immediate post-dominator per block index (nil = function exit)
}

type frame struct {
	cur    *preInstr
	fn     *ssa.Function
	fi     *fnInfo
	locals []Value
	block  *ssa.BasicBlock
	prev   *ssa.BasicBlock
	ip     int
	visits map[int]int
}

func (f *frame) clone() *frame {
	n := *f
	n.locals = append([]Value(nil), f.locals...)
	n.visits = make(map[int]int, len(f.visits))
	for k, v := range f.visits {
		n.visits[k] = v
	}
	return &n
}

type task struct {
	st *State
	fr *frame
}

// cont is one continuation of an instruction: a state and the value the instruction yields there.
type cont struct {
	st  *State
	val Value
}

type runCtx struct {
	outs     []Outcome
	tasks    []task
	depth    int
	stop     *ssa.BasicBlock // region mode: tasks end when they enter this block
	arrivals []task
}

func (e *Engine) info(fn *ssa.Function) *fnInfo {
	if fi, ok := e.fnInfos[fn]; ok {
		return fi
	}
	fi := &fnInfo{idx: map[ssa.Value]int{}}
	add := func(v ssa.Value) {
		fi.idx[v] = fi.n
		fi.n++
	}
	for _, p := range fn.Params {
		add(p)
	}
	for _, p := range fn.FreeVars {
		add(p)
	}
	for _, b := range fn.Blocks {
		for _, in := range b.Instrs {
			if v, ok := in.(ssa.Value); ok {
				add(v)
			}
		}
	}
	fi.ipdom = postDominators(fn)
	fi.pre = make([][]*preInstr, len(fn.Blocks))
	for bi, b := range fn.Blocks {
		fi.pre[bi] = make([]*preInstr, len(b.Instrs))
		for ii, in := range b.Instrs {
			pi := &preInstr{slot: -1}
			if v, ok := in.(ssa.Value); ok {
				pi.slot = int32(fi.idx[v])
			}
			var buf [8]*ssa.Value
			for _, op := range in.Operands(buf[:0]) {
				if op == nil || *op == nil {
					continue
				}
				v := *op
				pi.vals = append(pi.vals, v)
				if s, ok := fi.idx[v]; ok {
					pi.ops = append(pi.ops, int32(s))
					pi.consts = append(pi.consts, nil)
					continue
				}
				pi.ops = append(pi.ops, -1)
				if c, ok := v.(*ssa.Const); ok {
					pi.consts = append(pi.consts, e.safeConst(c))
				} else {
					pi.consts = append(pi.consts, nil)
				}
			}
			fi.pre[bi][ii] = pi
		}
	}
	e.fnInfos[fn] = fi
	return fi
}

// safeConst evaluates a constant operand ahead of time; constants of unsupported types stay nil
// and are reported when (and if) they are actually used.
func (e *Engine) safeConst(c *ssa.Const) (v Value) {
	defer func() {
		if r := recover(); r != nil {
			v = nil
		}
	}()
	return e.constVal(c)
}

// postDominators computes immediate post-dominators on the CFG without panic-terminated
// blocks (those never reach a join). nil means the virtual exit.
func postDominators(fn *ssa.Function) []*ssa.BasicBlock {
	n := len(fn.Blocks)
	words := (n + 1 + 63) / 64
	exit := n
	type bits []uint64
	full := func() bits {
		b := make(bits, words)
		for i := range b {
			b[i] = ^uint64(0)
		}
		return b
	}
	isPanic := make([]bool, n)
	for i, b := range fn.Blocks {
		if len(b.Instrs) > 0 {
			if _, ok := b.Instrs[len(b.Instrs)-1].(*ssa.Panic); ok {
				isPanic[i] = true
			}
		}
	}
	pd := make([]bits, n+1)
	for i := range pd {
		pd[i] = full()
	}
	pd[exit] = make(bits, words)
	pd[exit][exit/64] |= 1 << uint(exit%64)
	succs := func(i int) []int {
		b := fn.Blocks[i]
		if len(b.Succs) == 0 {
			return []int{exit}
		}
		var out []int
		for _, s := range b.Succs {
			if !isPanic[s.Index] {
				out = append(out, s.Index)
			}
		}
		if len(out) == 0 {
			return []int{exit}
		}
		return out
	}
	changed := true
	for changed {
		changed = false
		for i := n - 1; i >= 0; i-- {
			nb := full()
			for _, s := range succs(i) {
				for w := range nb {
					nb[w] &= pd[s][w]
				}
			}
			nb[i/64] |= 1 << uint(i%64)
			for w := range nb {
				if nb[w] != pd[i][w] {
					changed = true
				}
			}
			pd[i] = nb
		}
	}
	count := func(b bits) int {
		c := 0
		for _, w := range b {
			for ; w != 0; w &= w - 1 {
				c++
			}
		}
		return c
	}
	res := make([]*ssa.BasicBlock, n)
	for i := 0; i < n; i++ {
		best, bestC := -1, -1
		for j := 0; j <= n; j++ {
			if j == i || pd[i][j/64]&(1<<uint(j%64)) == 0 {
				continue
			}
			if c := count(pd[j]); c > bestC {
				best, bestC = j, c
			}
		}
		if best >= 0 && best != exit {
			res[i] = fn.Blocks[best]
		}
	}
	return res
}

func (fr *frame) set(v ssa.Value, x Value) {
	if c := fr.cur; c != nil && c.slot >= 0 {
		if cv, ok := fr.block.Instrs[fr.ip-1].(ssa.Value); ok && fr.ip > 0 && cv == v {
			fr.locals[c.slot] = x
			return
		}
	}
	fr.locals[fr.fi.idx[v]] = x
}

func (e *Engine) get(st *State, fr *frame, v ssa.Value) Value {
	if c := fr.cur; c != nil {
		for k, ov := range c.vals {
			if ov == v {
				if s := c.ops[k]; s >= 0 {
					return fr.locals[s]
				}
				if cv := c.consts[k]; cv != nil {
					return cv
				}
				break
			}
		}
	}
	switch x := v.(type) {
	case *ssa.Const:
		if c, ok := e.constCache[x]; ok {
			return c
		}
		c := e.constVal(x)
		e.constCache[x] = c
		return c
	case *ssa.Global:
		return &Ptr{Obj: e.globalObj(st, x)}
	case *ssa.Function:
		return &FuncV{Fn: x}
	case *ssa.Builtin:
		return &FuncV{Name: "builtin:" + x.Name()}
	}
	i, ok := fr.fi.idx[v]
	if !ok {
		panic(unsupported(fmt.Sprintf("value %s (%T) not in frame of %s", v.Name(), v, fr.fn)))
	}
	return fr.locals[i]
}

func (e *Engine) constVal(c *ssa.Const) Value {
	t := c.Type()
	if c.Value == nil {
		return e.zero(t)
	}
	if w, _, ok := intWidth(t); ok {
		if v, exact := constant.Int64Val(constant.ToInt(c.Value)); exact {
			return term.Const(w, uint64(v))
		}
		v, _ := constant.Uint64Val(constant.ToInt(c.Value))
		return term.Const(w, v)
	}
	if isBoolType(t) {
		return term.Bool(constant.BoolVal(c.Value))
	}
	if isStringType(t) {
		return &StrV{S: constant.StringVal(c.Value)}
	}
	panic(unsupported("constant of type " + t.String()))
}

// ---------------------------------------------------------------- calls

const maxDepth = 200

func (e *Engine) call(st *State, fn *ssa.Function, args []Value, bind []Value, depth int) []Outcome {
	if depth > maxDepth {
		panic(unsupported("call depth exceeded in " + fn.String()))
	}
	if in := e.intrinsicFor(fn); in != nil {
		return in(e, st, args, depth)
	}
	if len(fn.Blocks) == 0 {
		panic(unsupported("external function without body: " + fn.String()))
	}
	e.noteFunction(fn)
	fi := e.info(fn)
	fr := &frame{fn: fn, fi: fi, locals: make([]Value, fi.n), block: fn.Blocks[0], visits: map[int]int{}}
	if len(args) != len(fn.Params) {
		panic(unsupported(fmt.Sprintf("arity mismatch calling %s: %d args for %d params", fn, len(args), len(fn.Params))))
	}
	for i, p := range fn.Params {
		fr.set(p, args[i])
	}
	if len(bind) != len(fn.FreeVars) {
		panic(unsupported(fmt.Sprintf("free variable mismatch calling %s", fn)))
	}
	for i, p := range fn.FreeVars {
		fr.set(p, bind[i])
	}
	rc := &runCtx{depth: depth}
	pc0 := st.pc[:len(st.pc):len(st.pc)]
	seq0 := e.restrictSeq
	rc.tasks = append(rc.tasks, task{st, fr})
	e.drain(rc)
	nouts := len(rc.outs)
	outs := e.mergeOutcomes(rc.outs)
	if len(outs) == 1 && outs[0].Panic == nil && nouts > 1 && e.restrictSeq == seq0 && !e.NoPCRestore {
		allRet := true
		for _, o := range rc.outs {
			if o.Panic != nil {
				allRet = false
			}
		}
		if allRet {
			outs[0].St.pc = pc0 // all paths returned and merged: same argument as at a join
		}
	}
	return outs
}

func (e *Engine) drain(rc *runCtx) {
	for len(rc.tasks) > 0 {
		t := rc.tasks[len(rc.tasks)-1]
		rc.tasks = rc.tasks[:len(rc.tasks)-1]
		e.runTask(rc, t)
	}
}

// mergeArrivals merges the paths that reached a join block. Phi nodes are resolved per path
// first (they depend on the predecessor), then states and frames are merged.
func (e *Engine) mergeArrivals(arr []task) []task {
	var live []task
	for _, t := range arr {
		if t.st.dead() {
			continue
		}
		fr := t.fr
		for fr.ip < len(fr.block.Instrs) {
			phi, ok := fr.block.Instrs[fr.ip].(*ssa.Phi)
			if !ok {
				break
			}
			for i, p := range fr.block.Preds {
				if p == fr.prev {
					fr.set(phi, e.get(t.st, fr, phi.Edges[i]))
				}
			}
			fr.ip++
		}
		live = append(live, t)
	}
	changed := true
	for changed && len(live) > 1 {
		changed = false
		for i := len(live) - 1; i > 0 && !changed; i-- {
			for j := i - 1; j >= 0; j-- {
				a, b := live[j], live[i]
				if a.fr.ip != b.fr.ip {
					continue
				}
				st, v, ok := mergeStates(a.st, b.st, &frameV{a.fr.locals}, &frameV{b.fr.locals})
				if !ok {
					continue
				}
				nf := a.fr.clone()
				nf.locals = v.(*frameV).L
				for k, c := range b.fr.visits {
					if c > nf.visits[k] {
						nf.visits[k] = c
					}
				}
				live[j] = task{st, nf}
				live = append(live[:i], live[i+1:]...)
				e.stats.Merges++
				changed = true
				break
			}
		}
	}
	return live
}

// frameV wraps frame locals for merging (a slot missing on one side takes the other side's value).
type frameV struct{ L []Value }

// mergeOutcomes folds normal-return outcomes together where possible (from the end backwards,
// which matches the depth-first creation order of complementary path conditions).
func (e *Engine) mergeOutcomes(outs []Outcome) []Outcome {
	if len(outs) <= 1 || e.NoMerge {
		return outs
	}
	var rets, pans []Outcome
	for _, o := range outs {
		if o.St.dead() {
			continue
		}
		if o.Panic != nil {
			pans = append(pans, o)
		} else {
			rets = append(rets, o)
		}
	}
	// repeatedly try to merge the last outcome into an earlier one
	changed := true
	for changed && len(rets) > 1 {
		changed = false
		for i := len(rets) - 1; i > 0 && !changed; i-- {
			for j := i - 1; j >= 0; j-- {
				st, v, ok := mergeStates(rets[j].St, rets[i].St, rets[j].Ret, rets[i].Ret)
				if ok {
					rets[j] = Outcome{St: st, Ret: v}
					rets = append(rets[:i], rets[i+1:]...)
					e.stats.Merges++
					changed = true
					break
				}
			}
		}
	}
	return append(rets, pans...)
}

func (e *Engine) runTask(rc *runCtx, t task) {
	st, fr := t.st, t.fr
	defer func() {
		// an unsupported construct met on a path the solver proves infeasible is not a limitation of
		// the run: branches are followed lazily, so such paths exist only until somebody looks
		if r := recover(); r != nil {
			if _, ok := r.(unsupportedErr); ok && st != nil && !st.dead() && !e.feasible(st) {
				e.stats.Pruned++
				return
			}
			panic(r)
		}
	}()
	for {
		if st.dead() {
			return
		}
		if fr.ip >= len(fr.block.Instrs) {
			panic(unsupported("fell off block end in " + fr.fn.String()))
		}
		in := fr.block.Instrs[fr.ip]
		fr.cur = fr.fi.pre[fr.block.Index][fr.ip]
		fr.ip++
		st.steps++
		e.stats.Instrs++
		if st.steps&0xFFFFF == 0 && !e.jobStart.IsZero() && time.Since(e.jobStart) > e.JobWall {
			panic(unsupported(fmt.Sprintf("job wall-clock limit of %s exceeded in %s", e.JobWall, fr.fn)))
		}
		if st.steps > e.MaxSteps {
			panic(unsupported(fmt.Sprintf("step budget exceeded (%d) in %s", e.MaxSteps, fr.fn)))
		}
		switch x := in.(type) {
		case *ssa.Jump:
			if !e.enter(st, fr, fr.block.Succs[0]) {
				return
			}
			if rc.stop != nil && fr.block == rc.stop {
				rc.arrivals = append(rc.arrivals, task{st, fr})
				return
			}
		case *ssa.If:
			c := e.get(st, fr, x.Cond).(*term.Term)
			if c == term.True || c == term.False {
				k := 0
				if c == term.False {
					k = 1
				}
				if !e.enter(st, fr, fr.block.Succs[k]) {
					return
				}
				if rc.stop != nil && fr.block == rc.stop {
					rc.arrivals = append(rc.arrivals, task{st, fr})
					return
				}
				continue
			}
			// symbolic branch: fork
			e.stats.Forks++
			if fr.visits[fr.block.Index] > 1 {
				// the same symbolic branch decided again on this path: a loop whose continuation
				// depends on symbolic data. Bounded unwinding: the registered jobs need at most ~200
				// such iterations; a change that makes such a loop spin without progress would
				// otherwise keep the check running for ever.
				st.symBack++
				if st.symBack > e.SymUnwind {
					panic(unsupported(fmt.Sprintf("unwinding bound: a symbolic loop condition was decided more than %d times on one path (block %d of %s): no progress towards the loop exit?", e.SymUnwind, fr.block.Index, fr.fn)))
				}
			}
			pc0 := st.pc[:len(st.pc):len(st.pc)]
			seq0 := e.restrictSeq
			st2 := st.fork()
			fr2 := fr.clone()
			st.assume(c)
			st2.assume(term.Not(c))
			join := fr.fi.ipdom[fr.block.Index]
			if join != nil && !e.NoMerge && join != rc.stop {
				// run both arms up to the join block, then merge what arrives there
				sub := &runCtx{depth: rc.depth, stop: join}
				if e.enterChecked(st2, fr2, fr2.block.Succs[1]) {
					if fr2.block == join {
						sub.arrivals = append(sub.arrivals, task{st2, fr2})
					} else {
						sub.tasks = append(sub.tasks, task{st2, fr2})
					}
				}
				if e.enterChecked(st, fr, fr.block.Succs[0]) {
					if fr.block == join {
						sub.arrivals = append(sub.arrivals, task{st, fr})
					} else {
						sub.tasks = append(sub.tasks, task{st, fr})
					}
				}
				e.drain(sub)
				rc.outs = append(rc.outs, sub.outs...)
				arr := e.mergeArrivals(sub.arrivals)
				if len(arr) == 0 {
					return
				}
				if len(arr) == 1 && len(sub.outs) == 0 && e.restrictSeq == seq0 && !e.NoPCRestore {
					// every path of the region arrived here and none was restricted by an assumption:
					// the disjunction of their conditions is the condition the region was entered with
					arr[0].st.pc = pc0
				}
				for _, a := range arr[1:] {
					rc.tasks = append(rc.tasks, a)
				}
				st, fr = arr[0].st, arr[0].fr
				if rc.stop != nil && fr.block == rc.stop {
					rc.arrivals = append(rc.arrivals, task{st, fr})
					return
				}
				continue
			}
			ok1 := e.enterChecked(st, fr, fr.block.Succs[0])
			ok2 := e.enterChecked(st2, fr2, fr2.block.Succs[1])
			if ok2 {
				if rc.stop != nil && fr2.block == rc.stop {
					rc.arrivals = append(rc.arrivals, task{st2, fr2})
				} else {
					rc.tasks = append(rc.tasks, task{st2, fr2})
				}
			}
			if !ok1 {
				return
			}
			if rc.stop != nil && fr.block == rc.stop {
				rc.arrivals = append(rc.arrivals, task{st, fr})
				return
			}
		case *ssa.Return:
			var ret Value
			switch len(x.Results) {
			case 0:
			case 1:
				ret = e.get(st, fr, x.Results[0])
			default:
				el := make([]Value, len(x.Results))
				for i, r := range x.Results {
					el[i] = e.get(st, fr, r)
				}
				ret = &TupleV{E: el}
			}
			rc.outs = append(rc.outs, Outcome{St: st, Ret: ret})
			return
		case *ssa.Panic:
			v := e.get(st, fr, x.X)
			rc.outs = append(rc.outs, Outcome{St: st, Panic: &PanicInfo{Msg: e.panicMsg(v), Val: v, Site: e.pos(x)}})
			return
		case *ssa.Store:
			p := e.get(st, fr, x.Addr).(*Ptr)
			if !e.requireNonNil(rc, st, p, x) {
				return
			}
			st.store(p, e.get(st, fr, x.Val))
		case *ssa.MapUpdate:
			conts := e.mapUpdate(rc, st, fr, x)
			if !e.spread(rc, fr, nil, conts, &st) {
				return
			}
		case *ssa.DebugRef:
		case *ssa.RunDefers:
			panic(unsupported("defer in " + fr.fn.String()))
		case *ssa.Defer, *ssa.Go, *ssa.Send, *ssa.Select:
			panic(unsupported(fmt.Sprintf("%T in %s", in, fr.fn)))
		case ssa.Value:
			conts := e.eval(rc, st, fr, x)
			if !e.spread(rc, fr, x, conts, &st) {
				return
			}
		default:
			panic(unsupported(fmt.Sprintf("instruction %T", in)))
		}
	}
}

// spread continues the current task with the first continuation and queues the others.
func (e *Engine) spread(rc *runCtx, fr *frame, v ssa.Value, conts []cont, cur **State) bool {
	if len(conts) == 0 {
		return false
	}
	for i := len(conts) - 1; i >= 1; i-- {
		f2 := fr.clone()
		if v != nil {
			f2.set(v, conts[i].val)
		}
		rc.tasks = append(rc.tasks, task{conts[i].st, f2})
	}
	if v != nil {
		fr.set(v, conts[0].val)
	}
	*cur = conts[0].st
	return true
}

func (e *Engine) enter(st *State, fr *frame, b *ssa.BasicBlock) bool {
	// back edge (the target dominates the source): the path must still be feasible, otherwise a loop
	// whose exit condition is symbolic would be unrolled forever along an impossible path
	if len(st.pc) > 0 && fr.visits[b.Index] > 0 && b.Dominates(fr.block) {
		if !e.feasible(st) {
			e.stats.Pruned++
			return false
		}
	}
	fr.prev = fr.block
	fr.block = b
	fr.ip = 0
	fr.visits[b.Index]++
	if fr.visits[b.Index] > e.Unwind {
		panic(unsupported(fmt.Sprintf("unwind bound %d exceeded at block %d of %s", e.Unwind, b.Index, fr.fn)))
	}
	return true
}

// enterChecked enters a block after a symbolic branch; when the block is being re-entered
// (a loop) the branch is checked for feasibility so that bounded loops terminate.
func (e *Engine) enterChecked(st *State, fr *frame, b *ssa.BasicBlock) bool {
	if st.dead() {
		return false
	}
	// feasibility is only looked at where it is needed for termination: on back edges
	if fr.visits[b.Index] > 0 && fr.visits[fr.block.Index] > 0 && b.Dominates(fr.block) {
		if !e.feasible(st) {
			e.stats.Pruned++
			return false
		}
	}
	return e.enter(st, fr, b)
}

func (e *Engine) pos(in ssa.Instruction) string {
	p := e.prog.Fset.Position(in.Pos())
	if !p.IsValid() {
		if f := in.Parent(); f != nil {
			return f.String()
		}
		return "?"
	}
	return fmt.Sprintf("%s:%d", p.Filename, p.Line)
}

func (e *Engine) panicMsg(v Value) string {
	if iv, ok := v.(*IfaceV); ok && iv.T != nil {
		switch x := iv.V.(type) {
		case *StrV:
			if s, ok := x.Concrete(); ok {
				return s
			}
			return "<symbolic string>"
		case *Ptr:
			if x != nil && x.Obj.Opaque != "" {
				return x.Obj.Opaque
			}
			if msg, ok := e.errMsgs[x.Obj.ID]; ok {
				return msg
			}
		}
		return "panic(" + iv.T.String() + ")"
	}
	return "panic"
}

// require adds a runtime-check obligation: if cond can be false a panic outcome is produced.
// It returns false when the current path cannot continue.
func (e *Engine) require(rc *runCtx, st *State, cond *term.Term, msg string, in ssa.Instruction) bool {
	if cond == term.True {
		return true
	}
	site := ""
	if in != nil {
		site = e.pos(in)
	}
	if cond == term.False {
		rc.outs = append(rc.outs, Outcome{St: st, Panic: &PanicInfo{Msg: msg, Implicit: true, Site: site}})
		return false
	}
	ps := st.fork()
	ps.assume(term.Not(cond))
	if e.feasible(ps) {
		rc.outs = append(rc.outs, Outcome{St: ps, Panic: &PanicInfo{Msg: msg, Implicit: true, Site: site}})
	} else {
		e.stats.Pruned++
	}
	st.assume(cond)
	return true
}

func (e *Engine) requireNonNil(rc *runCtx, st *State, p *Ptr, in ssa.Instruction) bool {
	if p == nil {
		return e.require(rc, st, term.False, "nil pointer dereference", in)
	}
	return true
}

// ---------------------------------------------------------------- value instructions

func one(st *State, v Value) []cont { return []cont{{st, v}} }

// one1 is one() without the allocation, for the engine's hottest instructions; the result is
// consumed by spread before any other instruction runs.
func (e *Engine) one1(st *State, v Value) []cont {
	e.oneBuf[0] = cont{st, v}
	return e.oneBuf[:]
}

func (e *Engine) eval(rc *runCtx, st *State, fr *frame, in ssa.Value) []cont {
	switch x := in.(type) {
	case *ssa.Alloc:
		t := x.Type().Underlying().(*types.Pointer).Elem()
		o := e.newObject(st, t, e.pos(x), e.zero(t))
		return one(st, &Ptr{Obj: o})
	case *ssa.Phi:
		for i, p := range fr.block.Preds {
			if p == fr.prev {
				return one(st, e.get(st, fr, x.Edges[i]))
			}
		}
		panic(unsupported("phi without matching predecessor"))
	case *ssa.BinOp:
		a, b := e.get(st, fr, x.X), e.get(st, fr, x.Y)
		if x.Op == token.QUO || x.Op == token.REM {
			if d, ok := b.(*term.Term); ok {
				if !e.require(rc, st, term.Not(term.Eq(d, term.Const(d.W, 0))), "integer divide by zero", x) {
					return nil
				}
			}
		}
		return one(st, e.binop(x.Op, a, b, x.X.Type(), x.Y.Type()))
	case *ssa.UnOp:
		v := e.get(st, fr, x.X)
		switch x.Op {
		case token.MUL:
			p := v.(*Ptr)
			if !e.requireNonNil(rc, st, p, x) {
				return nil
			}
			return one(st, st.load(p))
		case token.NOT:
			return one(st, term.Not(v.(*term.Term)))
		case token.SUB:
			return one(st, term.Neg(v.(*term.Term)))
		case token.XOR:
			return one(st, term.BNot(v.(*term.Term)))
		}
		panic(unsupported("unary op " + x.Op.String()))
	case *ssa.Call:
		return e.doCall(rc, st, fr, x)
	case *ssa.ChangeInterface:
		return one(st, e.get(st, fr, x.X))
	case *ssa.ChangeType:
		return one(st, e.get(st, fr, x.X))
	case *ssa.Convert:
		return one(st, e.convert(st, e.get(st, fr, x.X), x.X.Type(), x.Type(), x))
	case *ssa.Extract:
		return one(st, e.get(st, fr, x.Tuple).(*TupleV).E[x.Index])
	case *ssa.Field:
		return one(st, e.get(st, fr, x.X).(*StructV).F[x.Field])
	case *ssa.FieldAddr:
		p := e.get(st, fr, x.X).(*Ptr)
		if !e.requireNonNil(rc, st, p, x) {
			return nil
		}
		return one(st, p.child(Step{Idx: x.Field}))
	case *ssa.Index:
		return e.index(rc, st, fr, x)
	case *ssa.IndexAddr:
		return e.indexAddr(rc, st, fr, x)
	case *ssa.Lookup:
		return e.lookup(rc, st, fr, x)
	case *ssa.MakeClosure:
		bind := make([]Value, len(x.Bindings))
		for i, b := range x.Bindings {
			bind[i] = e.get(st, fr, b)
		}
		return one(st, &FuncV{Fn: x.Fn.(*ssa.Function), Bind: bind})
	case *ssa.MakeInterface:
		return one(st, &IfaceV{T: x.X.Type(), V: e.get(st, fr, x.X)})
	case *ssa.MakeMap:
		o := e.newObject(st, x.Type(), e.pos(x), &MapData{})
		return one(st, &MapV{Obj: o})
	case *ssa.MakeSlice:
		ln, ok1 := concreteInt(e.get(st, fr, x.Len))
		cp, ok2 := concreteInt(e.get(st, fr, x.Cap))
		if !ok1 || !ok2 {
			panic(unsupported("make([]T) with symbolic length at " + e.pos(x)))
		}
		et := x.Type().Underlying().(*types.Slice).Elem()
		return one(st, e.makeSlice(st, et, ln, cp, e.pos(x)))
	case *ssa.Range:
		return e.rangeInit(rc, st, fr, x)
	case *ssa.Next:
		return e.rangeNext(st, fr, x)
	case *ssa.Slice:
		return e.sliceOp(rc, st, fr, x)
	case *ssa.TypeAssert:
		return e.typeAssert(rc, st, fr, x)
	case *ssa.SliceToArrayPointer:
		s := e.get(st, fr, x.X).(*SliceV)
		n := int(x.Type().Underlying().(*types.Pointer).Elem().Underlying().(*types.Array).Len())
		if !e.require(rc, st, term.Ule(term.Const(64, uint64(n)), s.Len), "slice to array pointer: length too short", x) {
			return nil
		}
		off, ok := concreteInt(s.Off)
		base := e.arrayOf(st, s.Base)
		if sa, isSym := base.(*SymArrV); !ok || off != 0 || !isSym || sa.N != n {
			panic(unsupported("slice-to-array-pointer of a proper sub-slice"))
		}
		return one(st, s.Base)
	}
	panic(unsupported(fmt.Sprintf("instruction %T at %s", in, e.pos(in.(ssa.Instruction)))))
}

func concreteInt(v Value) (int, bool) {
	t, ok := v.(*term.Term)
	if !ok || !t.IsConst() {
		return 0, false
	}
	return int(int64(t.Val)), true
}

func c64(n int) *term.Term { return term.Const(64, uint64(int64(n))) }

func (e *Engine) makeSlice(st *State, et types.Type, ln, cp int, site string) *SliceV {
	at := types.NewArray(et, int64(cp))
	o := e.newObject(st, at, site, e.zero(at))
	return &SliceV{Base: &Ptr{Obj: o}, Off: c64(0), Len: c64(ln), Cap: c64(cp)}
}

func (e *Engine) arrayOf(st *State, p *Ptr) Value { return st.load(p) }

// ---------------------------------------------------------------- operators

func (e *Engine) binop(op token.Token, a, b Value, ta, tb types.Type) Value {
	switch x := a.(type) {
	case *term.Term:
		y, ok := b.(*term.Term)
		if !ok {
			panic(unsupported("binop on mixed values"))
		}
		if x.IsBool() {
			switch op {
			case token.EQL:
				return term.Eq(x, y)
			case token.NEQ:
				return term.Not(term.Eq(x, y))
			case token.AND, token.LAND:
				return term.And(x, y)
			case token.OR, token.LOR:
				return term.Or(x, y)
			}
			panic(unsupported("bool op " + op.String()))
		}
		_, signed, _ := intWidth(ta)
		switch op {
		case token.ADD:
			return term.Add(x, y)
		case token.SUB:
			return term.Sub(x, y)
		case token.MUL:
			return term.Mul(x, y)
		case token.QUO:
			if signed {
				return term.SDiv(x, y)
			}
			return term.UDiv(x, y)
		case token.REM:
			if signed {
				return term.SRem(x, y)
			}
			return term.URem(x, y)
		case token.AND:
			return term.BAnd(x, y)
		case token.OR:
			return term.BOr(x, y)
		case token.XOR:
			return term.BXor(x, y)
		case token.AND_NOT:
			return term.BAnd(x, term.BNot(y))
		case token.SHL, token.SHR:
			return shift(op, x, y, signed)
		case token.EQL:
			return term.Eq(x, y)
		case token.NEQ:
			return term.Not(term.Eq(x, y))
		case token.LSS:
			if signed {
				return term.Slt(x, y)
			}
			return term.Ult(x, y)
		case token.LEQ:
			if signed {
				return term.Sle(x, y)
			}
			return term.Ule(x, y)
		case token.GTR:
			if signed {
				return term.Sgt(x, y)
			}
			return term.Ugt(x, y)
		case token.GEQ:
			if signed {
				return term.Sge(x, y)
			}
			return term.Uge(x, y)
		}
		panic(unsupported("int op " + op.String()))
	case *StrV:
		y := b.(*StrV)
		switch op {
		case token.ADD:
			if x.B == nil && y.B == nil && !x.Opaque && !y.Opaque {
				return &StrV{S: x.S + y.S}
			}
			return &StrV{B: append(append([]*term.Term(nil), x.bytes()...), y.bytes()...), Opaque: x.Opaque || y.Opaque}
		case token.EQL, token.NEQ:
			r := strEq(x, y)
			if op == token.NEQ {
				r = term.Not(r)
			}
			return r
		case token.LSS, token.GTR, token.LEQ, token.GEQ:
			xs, ok1 := x.Concrete()
			ys, ok2 := y.Concrete()
			if !ok1 || !ok2 {
				panic(unsupported("ordering of symbolic strings"))
			}
			switch op {
			case token.LSS:
				return term.Bool(xs < ys)
			case token.GTR:
				return term.Bool(xs > ys)
			case token.LEQ:
				return term.Bool(xs <= ys)
			default:
				return term.Bool(xs >= ys)
			}
		}
		panic(unsupported("string op " + op.String()))
	}
	// identity comparisons
	if op == token.EQL || op == token.NEQ {
		r := e.valuesEqual(a, b)
		if op == token.NEQ {
			r = term.Not(r)
		}
		return r
	}
	panic(unsupported(fmt.Sprintf("binop %s on %T", op, a)))
}

func strEq(x, y *StrV) *term.Term {
	if x.Opaque || y.Opaque {
		panic(unsupported("comparison of an opaque (placeholder) string"))
	}
	if x.Len() != y.Len() {
		return term.False
	}
	xb, yb := x.bytes(), y.bytes()
	cs := make([]*term.Term, len(xb))
	for i := range xb {
		cs[i] = term.Eq(xb[i], yb[i])
	}
	return term.And(cs...)
}

func (e *Engine) valuesEqual(a, b Value) *term.Term {
	switch x := a.(type) {
	case *term.Term:
		if y, ok := b.(*term.Term); ok && x.SameSort(y) {
			return term.Eq(x, y)
		}
		return term.False
	case *Ptr:
		y, ok := b.(*Ptr)
		if !ok {
			return term.False
		}
		if x == nil || y == nil {
			return term.Bool(x == nil && y == nil)
		}
		if x.Obj != y.Obj || len(x.Path) != len(y.Path) {
			return term.False
		}
		cs := []*term.Term{}
		for i := range x.Path {
			cs = append(cs, term.Eq(stepTerm(x.Path[i]), stepTerm(y.Path[i])))
		}
		return term.And(cs...)
	case *IfaceV:
		y, ok := b.(*IfaceV)
		if !ok {
			return term.False
		}
		if x.T == nil || y.T == nil {
			return term.Bool(x.T == nil && y.T == nil)
		}
		if !types.Identical(x.T, y.T) {
			return term.False
		}
		return e.valuesEqual(x.V, y.V)
	case *StrV:
		if y, ok := b.(*StrV); ok {
			return strEq(x, y)
		}
		return term.False
	case *SliceV:
		y := b.(*SliceV)
		if x.Base == nil || y.Base == nil { // only comparison with nil is legal
			return term.Bool(x.Base == nil && y.Base == nil)
		}
	case *MapV:
		y := b.(*MapV)
		return term.Bool(x.Obj == nil && y.Obj == nil || x.Obj == y.Obj)
	case *FuncV:
		y := b.(*FuncV)
		if (x.Fn == nil && x.Name == "") || (y.Fn == nil && y.Name == "") {
			return term.Bool((x.Fn == nil && x.Name == "") && (y.Fn == nil && y.Name == ""))
		}
	case *StructV:
		y, ok := b.(*StructV)
		if ok && len(x.F) == len(y.F) {
			cs := []*term.Term{}
			for i := range x.F {
				cs = append(cs, e.valuesEqual(x.F[i], y.F[i]))
			}
			return term.And(cs...)
		}
	case *SymArrV:
		y, ok := b.(*SymArrV)
		if ok && x.N == y.N {
			if x.N <= 64 {
				cs := []*term.Term{}
				for i := 0; i < x.N; i++ {
					ix := term.Const(32, uint64(i))
					cs = append(cs, term.Eq(term.Select(x.A, ix), term.Select(y.A, ix)))
				}
				return term.And(cs...)
			}
			return term.Eq(x.A, y.A)
		}
	}
	panic(unsupported(fmt.Sprintf("comparison of %T values", a)))
}

func shift(op token.Token, x, y *term.Term, signed bool) *term.Term {
	w := x.W
	var amt *term.Term
	inRange := term.True
	if y.W == w {
		amt = y
	} else if y.W < w {
		amt = term.ZExt(y, w)
	} else {
		inRange = term.Ult(y, term.Const(y.W, uint64(w)))
		amt = term.Extract(y, w-1, 0)
	}
	if amt.IsConst() && amt.Val >= uint64(w) {
		inRange = term.False
	}
	var r, over *term.Term
	switch {
	case op == token.SHL:
		r, over = term.Shl(x, amt), term.Const(w, 0)
	case signed:
		r = term.AShr(x, amt)
		over = term.AShr(x, term.Const(w, uint64(w-1)))
	default:
		r, over = term.LShr(x, amt), term.Const(w, 0)
	}
	if inRange == term.False {
		return over
	}
	if !amt.IsConst() {
		// SMT shifts already saturate like Go for amounts >= w (shl/lshr give 0, ashr fills with sign)
		if inRange == term.True {
			return r
		}
	}
	return term.Ite(inRange, r, over)
}

func (e *Engine) convert(st *State, v Value, from, to types.Type, in ssa.Instruction) Value {
	if wt, _, ok := intWidth(to); ok {
		if t, ok2 := v.(*term.Term); ok2 && !t.IsBool() {
			_, sf, _ := intWidth(from)
			return term.Resize(t, wt, sf)
		}
	}
	if isStringType(to) {
		switch x := v.(type) {
		case *StrV:
			return x
		case *SliceV:
			n, ok := concreteInt(x.Len)
			if !ok {
				panic(unsupported("string([]byte) with symbolic length at " + e.pos(in)))
			}
			bs := make([]*term.Term, n)
			for i := 0; i < n; i++ {
				bs[i] = st.load(e.elemPtr(x, c64(i))).(*term.Term)
			}
			return mkStr(bs)
		case *term.Term:
			if x.IsConst() && x.Val < 0x80 {
				return &StrV{S: string(rune(x.Val))}
			}
		}
		panic(unsupported("conversion to string from " + from.String()))
	}
	if sl, ok := to.Underlying().(*types.Slice); ok {
		if s, ok2 := v.(*StrV); ok2 {
			if s.Opaque {
				panic(unsupported("[]byte(opaque string)"))
			}
			if w, _, ok3 := intWidth(sl.Elem()); ok3 && w == 8 {
				res := e.makeSlice(st, sl.Elem(), s.Len(), s.Len(), e.pos(in))
				arr := st.load(res.Base).(*SymArrV)
				a := arr.A
				for i, b := range s.bytes() {
					a = term.Store(a, term.Const(32, uint64(i)), b)
				}
				st.heap[res.Base.Obj.ID] = &SymArrV{A: a, N: arr.N}
				return res
			}
		}
		if _, ok2 := v.(*SliceV); ok2 {
			return v
		}
	}
	if _, ok := to.Underlying().(*types.Pointer); ok {
		return v
	}
	if b, ok := to.Underlying().(*types.Basic); ok && b.Kind() == types.UnsafePointer {
		return v
	}
	panic(unsupported(fmt.Sprintf("conversion %s -> %s at %s", from, to, e.pos(in))))
}

// ---------------------------------------------------------------- indexing

// elemPtr gives the pointer to element i (64-bit term) of a slice; no bounds check.
func (e *Engine) elemPtr(s *SliceV, i *term.Term) *Ptr {
	idx := term.Add(s.Off, i)
	if idx.IsConst() {
		return s.Base.child(Step{Idx: int(idx.Val)})
	}
	return s.Base.child(Step{Sym: idx})
}

func (e *Engine) indexAddr(rc *runCtx, st *State, fr *frame, x *ssa.IndexAddr) []cont {
	base := e.get(st, fr, x.X)
	i := e.get(st, fr, x.Index).(*term.Term)
	_, isigned, _ := intWidth(x.Index.Type())
	i = term.Resize(i, 64, isigned)
	var s *SliceV
	switch b := base.(type) {
	case *SliceV:
		s = b
		if s.Base == nil {
			e.require(rc, st, term.False, "index out of range (nil slice)", x)
			return nil
		}
	case *Ptr:
		if !e.requireNonNil(rc, st, b, x) {
			return nil
		}
		n := int(x.X.Type().Underlying().(*types.Pointer).Elem().Underlying().(*types.Array).Len())
		s = &SliceV{Base: b, Off: c64(0), Len: c64(n), Cap: c64(n)}
	default:
		panic(unsupported(fmt.Sprintf("IndexAddr on %T", base)))
	}
	if !e.require(rc, st, term.Ult(i, s.Len), "index out of range", x) {
		return nil
	}
	return e.elemConts(st, s, i, x)
}

// elemConts resolves an element pointer; a symbolic index into an element (non-integer) array
// forks over the runs of identical elements.
func (e *Engine) elemConts(st *State, s *SliceV, i *term.Term, in ssa.Instruction) []cont {
	idx := term.Add(s.Off, i)
	if idx.IsConst() {
		return one(st, s.Base.child(Step{Idx: int(idx.Val)}))
	}
	arr := st.load(s.Base)
	switch a := arr.(type) {
	case *SymArrV:
		return one(st, s.Base.child(Step{Sym: idx}))
	case *ArrV:
		return e.runConts(st, s, idx, a.E, nil)
	case *BigArrV:
		return e.runConts(st, s, idx, a.E, a)
	}
	panic(unsupported(fmt.Sprintf("symbolic index into %T at %s", arr, e.pos(in))))
}

// uniqueValue asks the solver whether t can take only one value on this path.
func (e *Engine) uniqueValue(st *State, t *term.Term) (uint64, bool) {
	pc := st.pcTerm()
	ans := e.Solver.Check(smt.Query{Asserts: []*term.Term{pc}, Values: []*term.Term{t}})
	if ans.Res != smt.Sat {
		return 0, false
	}
	v := ans.Values[0]
	a2 := e.Solver.Check(smt.Query{Asserts: []*term.Term{pc, term.Not(term.Eq(t, term.Const(t.W, v)))}})
	if a2.Res != smt.Unsat {
		return 0, false
	}
	return v, true
}

func (e *Engine) runConts(st *State, s *SliceV, idx *term.Term, el []Value, big *BigArrV) []cont {
	if big == nil && len(el) > 8 {
		// a table lookup whose index is pinned by the path condition (e.g. an opcode fixed by an assumption)
		if v, ok := e.uniqueValue(st, idx); ok && int(v) < len(el) {
			st.assume(term.Eq(idx, term.Const(idx.W, v)))
			return one(st, s.Base.child(Step{Idx: int(v)}))
		}
	}
	var starts []int
	if big != nil && big.runs != nil {
		starts = big.runs
	} else {
		starts = []int{0}
		for k := 1; k < len(el); k++ {
			if el[k] != el[k-1] && !sameValue(el[k], el[k-1]) {
				starts = append(starts, k)
			}
		}
		if big != nil {
			big.runs = starts
		}
	}
	if len(starts) == 1 {
		return one(st, s.Base.child(Step{Idx: 0, Rep: true}))
	}
	var out []cont
	e.stats.Forks += len(starts) - 1
	for k, lo := range starts {
		hi := len(el) - 1
		if k+1 < len(starts) {
			hi = starts[k+1] - 1
		}
		c := term.And(term.Ule(c64(lo), idx), term.Ule(idx, c64(hi)))
		if c == term.False {
			continue
		}
		ns := st.fork()
		ns.assume(c)
		if c != term.True && !e.feasible(ns) {
			e.stats.Pruned++
			continue
		}
		out = append(out, cont{ns, s.Base.child(Step{Idx: lo, Rep: true})})
	}
	return out
}

func (e *Engine) index(rc *runCtx, st *State, fr *frame, x *ssa.Index) []cont {
	base := e.get(st, fr, x.X)
	i := e.get(st, fr, x.Index).(*term.Term)
	_, isigned, _ := intWidth(x.Index.Type())
	i = term.Resize(i, 64, isigned)
	switch b := base.(type) {
	case *SymArrV:
		if !e.require(rc, st, term.Ult(i, c64(b.N)), "index out of range", x) {
			return nil
		}
		return one(st, term.Select(b.A, term.Extract(i, 31, 0)))
	case *ArrV:
		if !e.require(rc, st, term.Ult(i, c64(len(b.E))), "index out of range", x) {
			return nil
		}
		if i.IsConst() {
			return one(st, b.E[i.Val])
		}
		return e.indexSymElems(st, i, b.E)
	case *StrV:
		return e.strIndex(rc, st, b, i, x)
	}
	panic(unsupported(fmt.Sprintf("Index on %T", base)))
}

func (e *Engine) indexSymElems(st *State, i *term.Term, el []Value) []cont {
	// scalar elements: ite chain
	if _, ok := el[0].(*term.Term); ok {
		r := el[len(el)-1].(*term.Term)
		for k := len(el) - 2; k >= 0; k-- {
			r = term.Ite(term.Eq(i, c64(k)), el[k].(*term.Term), r)
		}
		return one(st, r)
	}
	panic(unsupported("symbolic index into array value of non-scalars"))
}

func (e *Engine) strIndex(rc *runCtx, st *State, s *StrV, i *term.Term, in ssa.Instruction) []cont {
	if s.Opaque {
		panic(unsupported("indexing an opaque string"))
	}
	if !e.require(rc, st, term.Ult(i, c64(s.Len())), "string index out of range", in) {
		return nil
	}
	if i.IsConst() {
		return one(st, s.bytes()[i.Val])
	}
	bs := s.bytes()
	// table lookup: the (small) index range is split into maximal runs in which the table value
	// rises by one per index (e.g. "0123456789abcdef" has two); each run is a linear expression
	n := len(bs)
	if ubv := term.UB(i); int(ubv) < n-1 {
		n = int(ubv) + 1
	}
	allConst := true
	for k := 0; k < n; k++ {
		if !bs[k].IsConst() {
			allConst = false
		}
	}
	if !allConst {
		r := bs[n-1]
		for k := n - 2; k >= 0; k-- {
			r = term.Ite(term.Eq(i, c64(k)), bs[k], r)
		}
		return one(st, r)
	}
	type run struct{ start, end int } // [start,end)
	var runs []run
	for k := 0; k < n; {
		j := k + 1
		for j < n && bs[j].Val == bs[j-1].Val+1 {
			j++
		}
		runs = append(runs, run{k, j})
		k = j
	}
	if len(runs) > 4 || n > 256 {
		// not a digit table: a decision tree over the index bits (equal sub-ranges collapse)
		vals := make([]uint64, n)
		for k := 0; k < n; k++ {
			vals[k] = bs[k].Val
		}
		return one(st, term.LookupConstTable(vals, 8, 0, i))
	}
	i8 := term.Extract(i, 7, 0) // n <= 256 here
	expr := func(r run) *term.Term {
		if r.end-r.start == 1 {
			return bs[r.start]
		}
		return term.Add(i8, term.Const(8, bs[r.start].Val-uint64(r.start)))
	}
	res := expr(runs[len(runs)-1])
	for k := len(runs) - 2; k >= 0; k-- {
		res = term.Ite(term.Ult(i, c64(runs[k].end)), expr(runs[k]), res)
	}
	return one(st, res)
}

func (e *Engine) sliceOp(rc *runCtx, st *State, fr *frame, x *ssa.Slice) []cont {
	base := e.get(st, fr, x.X)
	opt := func(v ssa.Value) *term.Term {
		if v == nil {
			return nil
		}
		t := e.get(st, fr, v).(*term.Term)
		_, sg, _ := intWidth(v.Type())
		return term.Resize(t, 64, sg)
	}
	lo, hi, mx := opt(x.Low), opt(x.High), opt(x.Max)
	if lo == nil {
		lo = c64(0)
	}
	// A bound that is one of a few constants chosen by an earlier branch (skip := 0 or 16) is case
	// split: slices with concrete extents keep stores and copies at concrete indices.
	if _, isSlice := base.(*SliceV); isSlice || isPtr(base) {
		if alts := e.splitSmall(st, lo); len(alts) > 1 || (len(alts) == 1 && alts[0].t != lo) {
			var out []cont
			for _, a := range alts {
				out = append(out, e.sliceWith(rc, a.st, fr, x, base, a.t, hi, mx)...)
			}
			return out
		}
		if hi != nil {
			if alts := e.splitSmall(st, hi); len(alts) > 1 || (len(alts) == 1 && alts[0].t != hi) {
				var out []cont
				for _, a := range alts {
					out = append(out, e.sliceWith(rc, a.st, fr, x, base, lo, a.t, mx)...)
				}
				return out
			}
		}
	}
	return e.sliceWith(rc, st, fr, x, base, lo, hi, mx)
}

func isPtr(v Value) bool { _, ok := v.(*Ptr); return ok }

type termAlt struct {
	st *State
	t  *term.Term
}

func hasIte(t *term.Term, budget *int) bool {
	if *budget <= 0 {
		return false
	}
	*budget--
	if t.K == term.KIte {
		return true
	}
	for _, a := range t.Args {
		if hasIte(a, budget) {
			return true
		}
	}
	return false
}

// splitSmall: if t is not constant, stems from a merge (contains an ite) and can take at most four
// values under the path condition, one alternative per value (state forked and constrained, term
// replaced by the constant); otherwise the single alternative (st, t).
func (e *Engine) splitSmall(st *State, t *term.Term) []termAlt {
	same := []termAlt{{st, t}}
	if t == nil || t.IsConst() || e.Concrete != nil {
		return same
	}
	budget := 64
	if !hasIte(t, &budget) {
		return same
	}
	asserts := []*term.Term{st.pcTerm()}
	var vals []uint64
	for {
		ans := e.Solver.Check(smt.Query{Asserts: asserts, Values: []*term.Term{t}})
		if ans.Res == smt.Unsat {
			break
		}
		if ans.Res != smt.Sat || len(vals) == 4 {
			return same
		}
		v := ans.Values[0]
		vals = append(vals, v)
		asserts = append(asserts, term.Not(term.Eq(t, term.Const(t.W, v))))
	}
	if len(vals) == 0 {
		return same
	}
	var out []termAlt
	for i, v := range vals {
		ns := st
		if i < len(vals)-1 {
			ns = st.fork()
		}
		c := term.Const(t.W, v)
		ns.assume(term.Eq(t, c))
		out = append(out, termAlt{ns, c})
	}
	e.stats.Forks += len(out) - 1
	return out
}

func (e *Engine) sliceWith(rc *runCtx, st *State, fr *frame, x *ssa.Slice, base Value, lo, hi, mx *term.Term) []cont {
	switch b := base.(type) {
	case *StrV:
		if hi == nil {
			hi = c64(b.Len())
		}
		l, ok1 := concreteInt(lo)
		h, ok2 := concreteInt(hi)
		if !ok1 || !ok2 {
			panic(unsupported("string slicing with symbolic bounds"))
		}
		if !(0 <= l && l <= h && h <= b.Len()) {
			e.require(rc, st, term.False, "slice bounds out of range", x)
			return nil
		}
		if b.B == nil {
			return one(st, &StrV{S: b.S[l:h], Opaque: b.Opaque})
		}
		return one(st, &StrV{B: b.B[l:h], Opaque: b.Opaque})
	case *Ptr:
		if !e.requireNonNil(rc, st, b, x) {
			return nil
		}
		n := int(x.X.Type().Underlying().(*types.Pointer).Elem().Underlying().(*types.Array).Len())
		return e.reslice(rc, st, &SliceV{Base: b, Off: c64(0), Len: c64(n), Cap: c64(n)}, lo, hi, mx, x)
	case *SliceV:
		if b.Base == nil {
			z := c64(0)
			if hi == nil {
				hi = z
			}
			ok := term.And(term.Eq(lo, z), term.Eq(hi, z))
			if mx != nil {
				ok = term.And(ok, term.Eq(mx, z))
			}
			if !e.require(rc, st, ok, "slice bounds out of range (nil slice)", x) {
				return nil
			}
			return one(st, b)
		}
		return e.reslice(rc, st, b, lo, hi, mx, x)
	}
	panic(unsupported(fmt.Sprintf("Slice on %T", base)))
}

func (e *Engine) reslice(rc *runCtx, st *State, s *SliceV, lo, hi, mx *term.Term, in ssa.Instruction) []cont {
	if hi == nil {
		hi = s.Len
	}
	capT := s.Cap
	if mx != nil {
		if !e.require(rc, st, term.Ule(mx, s.Cap), "slice bounds out of range (max > cap)", in) {
			return nil
		}
		capT = mx
	}
	if !e.require(rc, st, term.Ule(hi, capT), "slice bounds out of range (high > cap)", in) {
		return nil
	}
	if !e.require(rc, st, term.Ule(lo, hi), "slice bounds out of range (low > high)", in) {
		return nil
	}
	return one(st, &SliceV{Base: s.Base, Off: term.Add(s.Off, lo), Len: term.Sub(hi, lo), Cap: term.Sub(capT, lo)})
}

// ---------------------------------------------------------------- type assertions

func (e *Engine) typeAssert(rc *runCtx, st *State, fr *frame, x *ssa.TypeAssert) []cont {
	iv := e.get(st, fr, x.X).(*IfaceV)
	ok := false
	var res Value
	if iv.T != nil {
		if it, isIface := x.AssertedType.Underlying().(*types.Interface); isIface {
			ok = types.Implements(iv.T, it)
			res = iv
		} else {
			ok = types.Identical(iv.T, x.AssertedType)
			res = iv.V
		}
	}
	if x.CommaOk {
		if !ok {
			res = e.zero(x.AssertedType)
		}
		return one(st, &TupleV{E: []Value{res, term.Bool(ok)}})
	}
	if !ok {
		e.require(rc, st, term.False, "interface conversion failed: "+x.AssertedType.String(), x)
		return nil
	}
	return one(st, res)
}
