// Package w65816 is an independent reference model of the WDC 65C816 programming model for
// native mode (E=0 before the step), written from the W65C816S datasheet / "Programming the
// 65816" opcode matrix and the wrap rules listed in DESIGN.md Appendix A. One call of Step
// executes exactly one instruction (MVN/MVP: one byte of the move). It is loop-free.
package w65816

// Status bits.
const (
	FC = 0x01
	FZ = 0x02
	FI = 0x04
	FD = 0x08
	FX = 0x10
	FM = 0x20
	FV = 0x40
	FN = 0x80
)

// Arch is the architectural state.
type Arch struct {
	C       uint16 // B:A
	X, Y    uint16
	S, D    uint16
	DBR, K  uint8
	PC      uint16
	P       uint8
	E       bool
	Stopped bool

	// BCDInvalid is set when a decimal ADC/SBC met an operand or accumulator that is not valid BCD
	// (the documented result is then undefined; callers exclude the case).
	BCDInvalid bool
	// Decimal is set when the executed instruction was ADC/SBC with D=1 (V is then not compared).
	Decimal bool
}

type Mode uint8

const (
	Imp     Mode = iota // implied / stack
	Acc                 // accumulator
	Imm8                // #imm8 (REP SEP COP BRK WDM)
	ImmM                // #imm, width by m
	ImmX                // #imm, width by x
	Imm16               // PEA
	Dp                  // d
	DpX                 // d,x
	DpY                 // d,y
	DpInd               // (d)
	DpXInd              // (d,x)
	DpIndY              // (d),y
	DpIndL              // [d]
	DpIndLY             // [d],y
	Sr                  // d,s
	SrIndY              // (d,s),y
	Abs                 // a
	AbsX                // a,x
	AbsY                // a,y
	AbsInd              // (a)
	AbsXInd             // (a,x)
	AbsIndL             // [a]
	Long                // al
	LongX               // al,x
	Rel8                // r
	Rel16               // rl
	Block               // MVN/MVP
)

var ModeNames = [...]string{"imp", "acc", "imm8", "immM", "immX", "imm16", "d", "d,x", "d,y", "(d)", "(d,x)", "(d),y", "[d]", "[d],y",
	"d,s", "(d,s),y", "a", "a,x", "a,y", "(a)", "(a,x)", "[a]", "al", "al,x", "r", "rl", "xyc"}

type Mn uint8

const (
	ADC Mn = iota
	AND
	ASL
	BCC
	BCS
	BEQ
	BIT
	BMI
	BNE
	BPL
	BRA
	BRK
	BRL
	BVC
	BVS
	CLC
	CLD
	CLI
	CLV
	CMP
	COP
	CPX
	CPY
	DEC
	DEX
	DEY
	EOR
	INC
	INX
	INY
	JML
	JMP
	JSL
	JSR
	LDA
	LDX
	LDY
	LSR
	MVN
	MVP
	NOP
	ORA
	PEA
	PEI
	PER
	PHA
	PHB
	PHD
	PHK
	PHP
	PHX
	PHY
	PLA
	PLB
	PLD
	PLP
	PLX
	PLY
	REP
	ROL
	ROR
	RTI
	RTL
	RTS
	SBC
	SEC
	SED
	SEI
	SEP
	STA
	STP
	STX
	STY
	STZ
	TAX
	TAY
	TCD
	TCS
	TDC
	TRB
	TSB
	TSC
	TSX
	TXA
	TXS
	TXY
	TYA
	TYX
	WAI
	WDM
	XBA
	XCE
)

var MnNames = [...]string{"adc", "and", "asl", "bcc", "bcs", "beq", "bit", "bmi", "bne", "bpl", "bra", "brk", "brl", "bvc", "bvs",
	"clc", "cld", "cli", "clv", "cmp", "cop", "cpx", "cpy", "dec", "dex", "dey", "eor", "inc", "inx", "iny", "jml", "jmp", "jsl", "jsr",
	"lda", "ldx", "ldy", "lsr", "mvn", "mvp", "nop", "ora", "pea", "pei", "per", "pha", "phb", "phd", "phk", "php", "phx", "phy",
	"pla", "plb", "pld", "plp", "plx", "ply", "rep", "rol", "ror", "rti", "rtl", "rts", "sbc", "sec", "sed", "sei", "sep", "sta", "stp",
	"stx", "sty", "stz", "tax", "tay", "tcd", "tcs", "tdc", "trb", "tsb", "tsc", "tsx", "txa", "txs", "txy", "tya", "tyx", "wai", "wdm", "xba", "xce"}

type Op struct {
	Mn   Mn
	Mode Mode
}

// Table is the 65C816 opcode matrix.
var Table = [256]Op{
	0x00: {BRK, Imm8}, 0x01: {ORA, DpXInd}, 0x02: {COP, Imm8}, 0x03: {ORA, Sr}, 0x04: {TSB, Dp}, 0x05: {ORA, Dp}, 0x06: {ASL, Dp}, 0x07: {ORA, DpIndL},
	0x08: {PHP, Imp}, 0x09: {ORA, ImmM}, 0x0A: {ASL, Acc}, 0x0B: {PHD, Imp}, 0x0C: {TSB, Abs}, 0x0D: {ORA, Abs}, 0x0E: {ASL, Abs}, 0x0F: {ORA, Long},
	0x10: {BPL, Rel8}, 0x11: {ORA, DpIndY}, 0x12: {ORA, DpInd}, 0x13: {ORA, SrIndY}, 0x14: {TRB, Dp}, 0x15: {ORA, DpX}, 0x16: {ASL, DpX}, 0x17: {ORA, DpIndLY},
	0x18: {CLC, Imp}, 0x19: {ORA, AbsY}, 0x1A: {INC, Acc}, 0x1B: {TCS, Imp}, 0x1C: {TRB, Abs}, 0x1D: {ORA, AbsX}, 0x1E: {ASL, AbsX}, 0x1F: {ORA, LongX},
	0x20: {JSR, Abs}, 0x21: {AND, DpXInd}, 0x22: {JSL, Long}, 0x23: {AND, Sr}, 0x24: {BIT, Dp}, 0x25: {AND, Dp}, 0x26: {ROL, Dp}, 0x27: {AND, DpIndL},
	0x28: {PLP, Imp}, 0x29: {AND, ImmM}, 0x2A: {ROL, Acc}, 0x2B: {PLD, Imp}, 0x2C: {BIT, Abs}, 0x2D: {AND, Abs}, 0x2E: {ROL, Abs}, 0x2F: {AND, Long},
	0x30: {BMI, Rel8}, 0x31: {AND, DpIndY}, 0x32: {AND, DpInd}, 0x33: {AND, SrIndY}, 0x34: {BIT, DpX}, 0x35: {AND, DpX}, 0x36: {ROL, DpX}, 0x37: {AND, DpIndLY},
	0x38: {SEC, Imp}, 0x39: {AND, AbsY}, 0x3A: {DEC, Acc}, 0x3B: {TSC, Imp}, 0x3C: {BIT, AbsX}, 0x3D: {AND, AbsX}, 0x3E: {ROL, AbsX}, 0x3F: {AND, LongX},
	0x40: {RTI, Imp}, 0x41: {EOR, DpXInd}, 0x42: {WDM, Imm8}, 0x43: {EOR, Sr}, 0x44: {MVP, Block}, 0x45: {EOR, Dp}, 0x46: {LSR, Dp}, 0x47: {EOR, DpIndL},
	0x48: {PHA, Imp}, 0x49: {EOR, ImmM}, 0x4A: {LSR, Acc}, 0x4B: {PHK, Imp}, 0x4C: {JMP, Abs}, 0x4D: {EOR, Abs}, 0x4E: {LSR, Abs}, 0x4F: {EOR, Long},
	0x50: {BVC, Rel8}, 0x51: {EOR, DpIndY}, 0x52: {EOR, DpInd}, 0x53: {EOR, SrIndY}, 0x54: {MVN, Block}, 0x55: {EOR, DpX}, 0x56: {LSR, DpX}, 0x57: {EOR, DpIndLY},
	0x58: {CLI, Imp}, 0x59: {EOR, AbsY}, 0x5A: {PHY, Imp}, 0x5B: {TCD, Imp}, 0x5C: {JML, Long}, 0x5D: {EOR, AbsX}, 0x5E: {LSR, AbsX}, 0x5F: {EOR, LongX},
	0x60: {RTS, Imp}, 0x61: {ADC, DpXInd}, 0x62: {PER, Rel16}, 0x63: {ADC, Sr}, 0x64: {STZ, Dp}, 0x65: {ADC, Dp}, 0x66: {ROR, Dp}, 0x67: {ADC, DpIndL},
	0x68: {PLA, Imp}, 0x69: {ADC, ImmM}, 0x6A: {ROR, Acc}, 0x6B: {RTL, Imp}, 0x6C: {JMP, AbsInd}, 0x6D: {ADC, Abs}, 0x6E: {ROR, Abs}, 0x6F: {ADC, Long},
	0x70: {BVS, Rel8}, 0x71: {ADC, DpIndY}, 0x72: {ADC, DpInd}, 0x73: {ADC, SrIndY}, 0x74: {STZ, DpX}, 0x75: {ADC, DpX}, 0x76: {ROR, DpX}, 0x77: {ADC, DpIndLY},
	0x78: {SEI, Imp}, 0x79: {ADC, AbsY}, 0x7A: {PLY, Imp}, 0x7B: {TDC, Imp}, 0x7C: {JMP, AbsXInd}, 0x7D: {ADC, AbsX}, 0x7E: {ROR, AbsX}, 0x7F: {ADC, LongX},
	0x80: {BRA, Rel8}, 0x81: {STA, DpXInd}, 0x82: {BRL, Rel16}, 0x83: {STA, Sr}, 0x84: {STY, Dp}, 0x85: {STA, Dp}, 0x86: {STX, Dp}, 0x87: {STA, DpIndL},
	0x88: {DEY, Imp}, 0x89: {BIT, ImmM}, 0x8A: {TXA, Imp}, 0x8B: {PHB, Imp}, 0x8C: {STY, Abs}, 0x8D: {STA, Abs}, 0x8E: {STX, Abs}, 0x8F: {STA, Long},
	0x90: {BCC, Rel8}, 0x91: {STA, DpIndY}, 0x92: {STA, DpInd}, 0x93: {STA, SrIndY}, 0x94: {STY, DpX}, 0x95: {STA, DpX}, 0x96: {STX, DpY}, 0x97: {STA, DpIndLY},
	0x98: {TYA, Imp}, 0x99: {STA, AbsY}, 0x9A: {TXS, Imp}, 0x9B: {TXY, Imp}, 0x9C: {STZ, Abs}, 0x9D: {STA, AbsX}, 0x9E: {STZ, AbsX}, 0x9F: {STA, LongX},
	0xA0: {LDY, ImmX}, 0xA1: {LDA, DpXInd}, 0xA2: {LDX, ImmX}, 0xA3: {LDA, Sr}, 0xA4: {LDY, Dp}, 0xA5: {LDA, Dp}, 0xA6: {LDX, Dp}, 0xA7: {LDA, DpIndL},
	0xA8: {TAY, Imp}, 0xA9: {LDA, ImmM}, 0xAA: {TAX, Imp}, 0xAB: {PLB, Imp}, 0xAC: {LDY, Abs}, 0xAD: {LDA, Abs}, 0xAE: {LDX, Abs}, 0xAF: {LDA, Long},
	0xB0: {BCS, Rel8}, 0xB1: {LDA, DpIndY}, 0xB2: {LDA, DpInd}, 0xB3: {LDA, SrIndY}, 0xB4: {LDY, DpX}, 0xB5: {LDA, DpX}, 0xB6: {LDX, DpY}, 0xB7: {LDA, DpIndLY},
	0xB8: {CLV, Imp}, 0xB9: {LDA, AbsY}, 0xBA: {TSX, Imp}, 0xBB: {TYX, Imp}, 0xBC: {LDY, AbsX}, 0xBD: {LDA, AbsX}, 0xBE: {LDX, AbsY}, 0xBF: {LDA, LongX},
	0xC0: {CPY, ImmX}, 0xC1: {CMP, DpXInd}, 0xC2: {REP, Imm8}, 0xC3: {CMP, Sr}, 0xC4: {CPY, Dp}, 0xC5: {CMP, Dp}, 0xC6: {DEC, Dp}, 0xC7: {CMP, DpIndL},
	0xC8: {INY, Imp}, 0xC9: {CMP, ImmM}, 0xCA: {DEX, Imp}, 0xCB: {WAI, Imp}, 0xCC: {CPY, Abs}, 0xCD: {CMP, Abs}, 0xCE: {DEC, Abs}, 0xCF: {CMP, Long},
	0xD0: {BNE, Rel8}, 0xD1: {CMP, DpIndY}, 0xD2: {CMP, DpInd}, 0xD3: {CMP, SrIndY}, 0xD4: {PEI, Dp}, 0xD5: {CMP, DpX}, 0xD6: {DEC, DpX}, 0xD7: {CMP, DpIndLY},
	0xD8: {CLD, Imp}, 0xD9: {CMP, AbsY}, 0xDA: {PHX, Imp}, 0xDB: {STP, Imp}, 0xDC: {JML, AbsIndL}, 0xDD: {CMP, AbsX}, 0xDE: {DEC, AbsX}, 0xDF: {CMP, LongX},
	0xE0: {CPX, ImmX}, 0xE1: {SBC, DpXInd}, 0xE2: {SEP, Imm8}, 0xE3: {SBC, Sr}, 0xE4: {CPX, Dp}, 0xE5: {SBC, Dp}, 0xE6: {INC, Dp}, 0xE7: {SBC, DpIndL},
	0xE8: {INX, Imp}, 0xE9: {SBC, ImmM}, 0xEA: {NOP, Imp}, 0xEB: {XBA, Imp}, 0xEC: {CPX, Abs}, 0xED: {SBC, Abs}, 0xEE: {INC, Abs}, 0xEF: {SBC, Long},
	0xF0: {BEQ, Rel8}, 0xF1: {SBC, DpIndY}, 0xF2: {SBC, DpInd}, 0xF3: {SBC, SrIndY}, 0xF4: {PEA, Imm16}, 0xF5: {SBC, DpX}, 0xF6: {INC, DpX}, 0xF7: {SBC, DpIndLY},
	0xF8: {SED, Imp}, 0xF9: {SBC, AbsY}, 0xFA: {PLX, Imp}, 0xFB: {XCE, Imp}, 0xFC: {JSR, AbsXInd}, 0xFD: {SBC, AbsX}, 0xFE: {INC, AbsX}, 0xFF: {SBC, LongX},
}

// Len is the architectural length of the instruction for the given width flags (true = 8 bit).
func Len(op uint8, m8, x8 bool) int {
	switch Table[op].Mode {
	case Imp, Acc:
		return 1
	case ImmM:
		if m8 {
			return 2
		}
		return 3
	case ImmX:
		if x8 {
			return 2
		}
		return 3
	case Imm8, Dp, DpX, DpY, DpInd, DpXInd, DpIndY, DpIndL, DpIndLY, Sr, SrIndY, Rel8:
		return 2
	case Imm16, Abs, AbsX, AbsY, AbsInd, AbsXInd, AbsIndL, Rel16, Block:
		return 3
	case Long, LongX:
		return 4
	}
	return 1
}

// address kinds: how the second byte of a 16-bit datum is located
const (
	kNone   = iota
	kBankK  // immediate: stays in the program bank, offset wraps
	kBank0  // direct / stack: bank 0, offset wraps at $FFFF
	kLinear // 24-bit address, carries into the next bank, wraps at $FFFFFF
)

func l24(a uint32) uint32 { return a & 0xFFFFFF }

func rd(m []byte, a uint32) uint8 { return m[a&0xFFFFFF] }

func wr(m []byte, a uint32, v uint8) { m[a&0xFFFFFF] = v }

func next(addr uint32, kind int) uint32 {
	switch kind {
	case kBankK, kBank0:
		return addr&0xFF0000 | (addr+1)&0xFFFF
	}
	return l24(addr + 1)
}

func rd16(m []byte, addr uint32, kind int) uint16 {
	return uint16(rd(m, addr)) | uint16(rd(m, next(addr, kind)))<<8
}

func wr16(m []byte, addr uint32, kind int, v uint16) {
	wr(m, addr, uint8(v))
	wr(m, next(addr, kind), uint8(v>>8))
}

func (a *Arch) flag(f uint8) bool { return a.P&f != 0 }

func (a *Arch) setFlag(f uint8, on bool) {
	if on {
		a.P |= f
	} else {
		a.P &^= f
	}
}

func (a *Arch) nz8(v uint8) {
	a.setFlag(FZ, v == 0)
	a.setFlag(FN, v&0x80 != 0)
}

func (a *Arch) nz16(v uint16) {
	a.setFlag(FZ, v == 0)
	a.setFlag(FN, v&0x8000 != 0)
}

func (a *Arch) xr() uint16 {
	if a.flag(FX) {
		return a.X & 0xFF
	}
	return a.X
}

func (a *Arch) yr() uint16 {
	if a.flag(FX) {
		return a.Y & 0xFF
	}
	return a.Y
}

func (a *Arch) push8(m []byte, v uint8) {
	wr(m, uint32(a.S), v)
	a.S--
}

func (a *Arch) pull8(m []byte) uint8 {
	a.S++
	return rd(m, uint32(a.S))
}

func (a *Arch) push16(m []byte, v uint16) {
	a.push8(m, uint8(v>>8))
	a.push8(m, uint8(v))
}

func (a *Arch) pull16(m []byte) uint16 {
	lo := a.pull8(m)
	hi := a.pull8(m)
	return uint16(hi)<<8 | uint16(lo)
}

// setP installs a new status byte (native mode) with the x-flag side effect.
func (a *Arch) setP(p uint8) {
	a.P = p
	if p&FX != 0 {
		a.X &= 0xFF
		a.Y &= 0xFF
	}
}

// operand resolves the addressing mode to the address of the data and its wrap kind.
func (a *Arch) operand(m []byte, mode Mode) (addr uint32, kind int) {
	k := uint32(a.K) << 16
	pc := a.PC
	o1 := uint16(rd(m, k|uint32(pc+1)))
	o2 := uint16(rd(m, k|uint32(pc+2)))
	o3 := uint32(rd(m, k|uint32(pc+3)))
	abs := o2<<8 | o1
	dbr := uint32(a.DBR) << 16
	switch mode {
	case Imm8, ImmM, ImmX, Imm16:
		return k | uint32(pc+1), kBankK
	case Dp:
		return uint32(a.D + o1), kBank0
	case DpX:
		return uint32(a.D + o1 + a.xr()), kBank0
	case DpY:
		return uint32(a.D + o1 + a.yr()), kBank0
	case Sr:
		return uint32(a.S + o1), kBank0
	case DpInd:
		ptr := rd16(m, uint32(a.D+o1), kBank0)
		return dbr | uint32(ptr), kLinear
	case DpXInd:
		ptr := rd16(m, uint32(a.D+o1+a.xr()), kBank0)
		return dbr | uint32(ptr), kLinear
	case DpIndY:
		ptr := rd16(m, uint32(a.D+o1), kBank0)
		return l24((dbr | uint32(ptr)) + uint32(a.yr())), kLinear
	case SrIndY:
		ptr := rd16(m, uint32(a.S+o1), kBank0)
		return l24((dbr | uint32(ptr)) + uint32(a.yr())), kLinear
	case DpIndL, DpIndLY:
		p := a.D + o1
		lo := uint32(rd(m, uint32(p)))
		mi := uint32(rd(m, uint32(p+1)))
		hi := uint32(rd(m, uint32(p+2)))
		ptr := hi<<16 | mi<<8 | lo
		if mode == DpIndLY {
			ptr += uint32(a.yr())
		}
		return l24(ptr), kLinear
	case Abs:
		return dbr | uint32(abs), kLinear
	case AbsX:
		return l24((dbr | uint32(abs)) + uint32(a.xr())), kLinear
	case AbsY:
		return l24((dbr | uint32(abs)) + uint32(a.yr())), kLinear
	case Long:
		return o3<<16 | uint32(abs), kLinear
	case LongX:
		return l24((o3<<16 | uint32(abs)) + uint32(a.xr())), kLinear
	}
	return 0, kNone
}

func bcdDigitsOK8(v uint8) bool   { return v&0x0F <= 9 && v>>4 <= 9 }
func bcdDigitsOK16(v uint16) bool { return bcdDigitsOK8(uint8(v)) && bcdDigitsOK8(uint8(v>>8)) }

// adcDec adds n BCD digits (n = 2 or 4).
func adcDec(x, y uint16, c uint16, digits int) (res uint16, carry bool) {
	for i := 0; i < digits; i++ {
		sh := uint(4 * i)
		d := (x>>sh)&0xF + (y>>sh)&0xF + c
		if d > 9 {
			d += 6
		}
		c = 0
		if d > 0xF {
			c = 1
		}
		res |= (d & 0xF) << sh
	}
	return res, c == 1
}

// sbcDec subtracts n BCD digits: x - y - borrow.
func sbcDec(x, y uint16, borrow uint16, digits int) (res uint16, noBorrow bool) {
	for i := 0; i < digits; i++ {
		sh := uint(4 * i)
		d := (x>>sh)&0xF - (y>>sh)&0xF - borrow // wraps in 16 bits when negative
		borrow = 0
		if d&0x8000 != 0 {
			d += 10
			borrow = 1
		}
		res |= (d & 0xF) << sh
	}
	return res, borrow == 0
}

func (a *Arch) adc(v uint16, m8 bool) {
	c := uint16(a.P & FC)
	if a.flag(FD) {
		a.Decimal = true
		if m8 {
			al := uint8(a.C)
			if !bcdDigitsOK8(al) || !bcdDigitsOK8(uint8(v)) {
				a.BCDInvalid = true
			}
			r, carry := adcDec(uint16(al), v&0xFF, c, 2)
			a.C = a.C&0xFF00 | r&0xFF
			a.setFlag(FC, carry)
			a.nz8(uint8(r))
		} else {
			if !bcdDigitsOK16(a.C) || !bcdDigitsOK16(v) {
				a.BCDInvalid = true
			}
			r, carry := adcDec(a.C, v, c, 4)
			a.C = r
			a.setFlag(FC, carry)
			a.nz16(r)
		}
		return
	}
	if m8 {
		x, y := uint16(a.C&0xFF), v&0xFF
		s := x + y + c
		a.setFlag(FC, s > 0xFF)
		a.setFlag(FV, (^(x^y))&(x^s)&0x80 != 0)
		a.C = a.C&0xFF00 | s&0xFF
		a.nz8(uint8(s))
	} else {
		x, y := uint32(a.C), uint32(v)
		s := x + y + uint32(c)
		a.setFlag(FC, s > 0xFFFF)
		a.setFlag(FV, (^(x^y))&(x^s)&0x8000 != 0)
		a.C = uint16(s)
		a.nz16(uint16(s))
	}
}

func (a *Arch) sbc(v uint16, m8 bool) {
	c := uint16(a.P & FC)
	if a.flag(FD) {
		a.Decimal = true
		if m8 {
			al := uint8(a.C)
			if !bcdDigitsOK8(al) || !bcdDigitsOK8(uint8(v)) {
				a.BCDInvalid = true
			}
			r, nb := sbcDec(uint16(al), v&0xFF, 1-c, 2)
			a.C = a.C&0xFF00 | r&0xFF
			a.setFlag(FC, nb)
			a.nz8(uint8(r))
		} else {
			if !bcdDigitsOK16(a.C) || !bcdDigitsOK16(v) {
				a.BCDInvalid = true
			}
			r, nb := sbcDec(a.C, v, 1-c, 4)
			a.C = r
			a.setFlag(FC, nb)
			a.nz16(r)
		}
		return
	}
	if m8 {
		x, y := uint16(a.C&0xFF), (^v)&0xFF
		s := x + y + c
		a.setFlag(FC, s > 0xFF)
		a.setFlag(FV, (^(x^y))&(x^s)&0x80 != 0)
		a.C = a.C&0xFF00 | s&0xFF
		a.nz8(uint8(s))
	} else {
		x, y := uint32(a.C), uint32(^v)
		s := x + y + uint32(c)
		a.setFlag(FC, s > 0xFFFF)
		a.setFlag(FV, (^(x^y))&(x^s)&0x8000 != 0)
		a.C = uint16(s)
		a.nz16(uint16(s))
	}
}

func (a *Arch) cmp(reg, v uint16, w8 bool) {
	if w8 {
		r, x := uint8(reg), uint8(v)
		a.setFlag(FC, r >= x)
		a.nz8(r - x)
	} else {
		a.setFlag(FC, reg >= v)
		a.nz16(reg - v)
	}
}

// rmw applies a read-modify-write operation of the given width.
func (a *Arch) rmw(mn Mn, v uint16, w8 bool) uint16 {
	var top uint16 = 0x8000
	var msk uint16 = 0xFFFF
	if w8 {
		top, msk = 0x80, 0xFF
	}
	v &= msk
	c := uint16(a.P & FC)
	var r uint16
	switch mn {
	case ASL:
		a.setFlag(FC, v&top != 0)
		r = v << 1
	case LSR:
		a.setFlag(FC, v&1 != 0)
		r = v >> 1
	case ROL:
		a.setFlag(FC, v&top != 0)
		r = v<<1 | c
	case ROR:
		a.setFlag(FC, v&1 != 0)
		r = v >> 1
		if c != 0 {
			r |= top
		}
	case INC:
		r = v + 1
	case DEC:
		r = v - 1
	}
	r &= msk
	if w8 {
		a.nz8(uint8(r))
	} else {
		a.nz16(r)
	}
	return r
}

func (a *Arch) branch(m []byte, taken bool) {
	off := uint16(int16(int8(rd(m, uint32(a.K)<<16|uint32(a.PC+1)))))
	if taken {
		a.PC = a.PC + 2 + off
	} else {
		a.PC += 2
	}
}

func (a *Arch) interrupt(m []byte, vector uint32) {
	a.push8(m, a.K)
	a.push16(m, a.PC+2)
	a.push8(m, a.P)
	a.P |= FI
	a.P &^= FD
	a.K = 0
	a.PC = rd16(m, vector, kBank0)
}

// Step executes one instruction. Precondition: native mode (a.E == false), not stopped.
func Step(a *Arch, m []byte) {
	op := rd(m, uint32(a.K)<<16|uint32(a.PC))
	e := Table[op]
	m8, x8 := a.flag(FM), a.flag(FX)
	n := uint16(Len(op, m8, x8))
	mn, mode := e.Mn, e.Mode
	a.BCDInvalid, a.Decimal = false, false

	switch mn {
	// ---- loads / ALU with the accumulator
	case LDA, ORA, AND, EOR, ADC, SBC, CMP, BIT:
		addr, kind := a.operand(m, mode)
		var v uint16
		if m8 {
			v = uint16(rd(m, addr))
		} else {
			v = rd16(m, addr, kind)
		}
		switch mn {
		case LDA:
			if m8 {
				a.C = a.C&0xFF00 | v
				a.nz8(uint8(v))
			} else {
				a.C = v
				a.nz16(v)
			}
		case ORA, AND, EOR:
			var r uint16
			switch mn {
			case ORA:
				r = a.C | v
			case AND:
				r = a.C & v
			default:
				r = a.C ^ v
			}
			if m8 {
				a.C = a.C&0xFF00 | r&0xFF
				a.nz8(uint8(r))
			} else {
				a.C = r
				a.nz16(r)
			}
		case ADC:
			a.adc(v, m8)
		case SBC:
			a.sbc(v, m8)
		case CMP:
			a.cmp(a.C, v, m8)
		case BIT:
			if m8 {
				a.setFlag(FZ, uint8(a.C)&uint8(v) == 0)
				if mode != ImmM {
					a.setFlag(FN, v&0x80 != 0)
					a.setFlag(FV, v&0x40 != 0)
				}
			} else {
				a.setFlag(FZ, a.C&v == 0)
				if mode != ImmM {
					a.setFlag(FN, v&0x8000 != 0)
					a.setFlag(FV, v&0x4000 != 0)
				}
			}
		}
		a.PC += n
	case LDX, LDY, CPX, CPY:
		addr, kind := a.operand(m, mode)
		var v uint16
		if x8 {
			v = uint16(rd(m, addr))
		} else {
			v = rd16(m, addr, kind)
		}
		switch mn {
		case LDX:
			a.X = v
		case LDY:
			a.Y = v
		case CPX:
			a.cmp(a.xr(), v, x8)
		case CPY:
			a.cmp(a.yr(), v, x8)
		}
		if mn == LDX || mn == LDY {
			if x8 {
				a.nz8(uint8(v))
			} else {
				a.nz16(v)
			}
		}
		a.PC += n
	// ---- stores
	case STA, STZ:
		addr, kind := a.operand(m, mode)
		v := a.C
		if mn == STZ {
			v = 0
		}
		if m8 {
			wr(m, addr, uint8(v))
		} else {
			wr16(m, addr, kind, v)
		}
		a.PC += n
	case STX, STY:
		addr, kind := a.operand(m, mode)
		v := a.xr()
		if mn == STY {
			v = a.yr()
		}
		if x8 {
			wr(m, addr, uint8(v))
		} else {
			wr16(m, addr, kind, v)
		}
		a.PC += n
	// ---- read-modify-write
	case ASL, LSR, ROL, ROR, INC, DEC:
		if mode == Acc {
			r := a.rmw(mn, a.C, m8)
			if m8 {
				a.C = a.C&0xFF00 | r
			} else {
				a.C = r
			}
		} else {
			addr, kind := a.operand(m, mode)
			if m8 {
				wr(m, addr, uint8(a.rmw(mn, uint16(rd(m, addr)), true)))
			} else {
				wr16(m, addr, kind, a.rmw(mn, rd16(m, addr, kind), false))
			}
		}
		a.PC += n
	case TSB, TRB:
		addr, kind := a.operand(m, mode)
		if m8 {
			v := rd(m, addr)
			al := uint8(a.C)
			a.setFlag(FZ, v&al == 0)
			if mn == TSB {
				wr(m, addr, v|al)
			} else {
				wr(m, addr, v&^al)
			}
		} else {
			v := rd16(m, addr, kind)
			a.setFlag(FZ, v&a.C == 0)
			if mn == TSB {
				wr16(m, addr, kind, v|a.C)
			} else {
				wr16(m, addr, kind, v&^a.C)
			}
		}
		a.PC += n
	// ---- index register arithmetic
	case INX, INY, DEX, DEY:
		var r uint16
		switch mn {
		case INX:
			r = a.xr() + 1
		case INY:
			r = a.yr() + 1
		case DEX:
			r = a.xr() - 1
		default:
			r = a.yr() - 1
		}
		if x8 {
			r &= 0xFF
			a.nz8(uint8(r))
		} else {
			a.nz16(r)
		}
		if mn == INX || mn == DEX {
			a.X = r
		} else {
			a.Y = r
		}
		a.PC += n
	// ---- branches
	case BCC:
		a.branch(m, !a.flag(FC))
	case BCS:
		a.branch(m, a.flag(FC))
	case BEQ:
		a.branch(m, a.flag(FZ))
	case BNE:
		a.branch(m, !a.flag(FZ))
	case BMI:
		a.branch(m, a.flag(FN))
	case BPL:
		a.branch(m, !a.flag(FN))
	case BVC:
		a.branch(m, !a.flag(FV))
	case BVS:
		a.branch(m, a.flag(FV))
	case BRA:
		a.branch(m, true)
	case BRL:
		a.PC = a.PC + 3 + rd16(m, uint32(a.K)<<16|uint32(a.PC+1), kBankK)
	// ---- jumps and calls
	case JMP, JML, JSR, JSL:
		k := uint32(a.K) << 16
		abs := rd16(m, k|uint32(a.PC+1), kBankK)
		switch mode {
		case Abs:
			if mn == JSR {
				a.push16(m, a.PC+2)
			}
			a.PC = abs
		case Long:
			bank := rd(m, k|uint32(a.PC+3))
			if mn == JSL {
				a.push8(m, a.K)
				a.push16(m, a.PC+3)
			}
			a.K, a.PC = bank, abs
		case AbsInd:
			a.PC = rd16(m, uint32(abs), kBank0)
		case AbsIndL:
			lo := rd16(m, uint32(abs), kBank0)
			a.K = rd(m, uint32(abs+2))
			a.PC = lo
		case AbsXInd:
			if mn == JSR {
				a.push16(m, a.PC+2)
			}
			a.PC = rd16(m, k|uint32(abs+a.xr()), kBankK)
		}
	case RTS:
		a.PC = a.pull16(m) + 1
	case RTL:
		a.PC = a.pull16(m) + 1
		a.K = a.pull8(m)
	case RTI:
		a.setP(a.pull8(m))
		a.PC = a.pull16(m)
		a.K = a.pull8(m)
	case BRK:
		a.interrupt(m, 0xFFE6)
	case COP:
		a.interrupt(m, 0xFFE4)
	// ---- stack
	case PHA:
		if m8 {
			a.push8(m, uint8(a.C))
		} else {
			a.push16(m, a.C)
		}
		a.PC += n
	case PHX, PHY:
		v := a.xr()
		if mn == PHY {
			v = a.yr()
		}
		if x8 {
			a.push8(m, uint8(v))
		} else {
			a.push16(m, v)
		}
		a.PC += n
	case PHP:
		a.push8(m, a.P)
		a.PC += n
	case PHB:
		a.push8(m, a.DBR)
		a.PC += n
	case PHK:
		a.push8(m, a.K)
		a.PC += n
	case PHD:
		a.push16(m, a.D)
		a.PC += n
	case PEA:
		a.push16(m, rd16(m, uint32(a.K)<<16|uint32(a.PC+1), kBankK))
		a.PC += n
	case PEI:
		addr, kind := a.operand(m, Dp)
		a.push16(m, rd16(m, addr, kind))
		a.PC += n
	case PER:
		a.push16(m, a.PC+3+rd16(m, uint32(a.K)<<16|uint32(a.PC+1), kBankK))
		a.PC += n
	case PLA:
		if m8 {
			v := a.pull8(m)
			a.C = a.C&0xFF00 | uint16(v)
			a.nz8(v)
		} else {
			a.C = a.pull16(m)
			a.nz16(a.C)
		}
		a.PC += n
	case PLX, PLY:
		var v uint16
		if x8 {
			v = uint16(a.pull8(m))
			a.nz8(uint8(v))
		} else {
			v = a.pull16(m)
			a.nz16(v)
		}
		if mn == PLX {
			a.X = v
		} else {
			a.Y = v
		}
		a.PC += n
	case PLP:
		a.setP(a.pull8(m))
		a.PC += n
	case PLB:
		a.DBR = a.pull8(m)
		a.nz8(a.DBR)
		a.PC += n
	case PLD:
		a.D = a.pull16(m)
		a.nz16(a.D)
		a.PC += n
	// ---- status
	case CLC:
		a.P &^= FC
		a.PC += n
	case SEC:
		a.P |= FC
		a.PC += n
	case CLD:
		a.P &^= FD
		a.PC += n
	case SED:
		a.P |= FD
		a.PC += n
	case CLI:
		a.P &^= FI
		a.PC += n
	case SEI:
		a.P |= FI
		a.PC += n
	case CLV:
		a.P &^= FV
		a.PC += n
	case REP:
		a.setP(a.P &^ rd(m, uint32(a.K)<<16|uint32(a.PC+1)))
		a.PC += n
	case SEP:
		a.setP(a.P | rd(m, uint32(a.K)<<16|uint32(a.PC+1)))
		a.PC += n
	case XCE:
		carry := a.flag(FC)
		a.setFlag(FC, a.E)
		a.E = carry
		if a.E {
			a.setP(a.P | FM | FX)
			a.S = 0x0100 | a.S&0xFF
		}
		a.PC += n
	// ---- transfers
	case TAX, TAY:
		var v uint16
		if x8 {
			v = a.C & 0xFF
			a.nz8(uint8(v))
		} else {
			v = a.C
			a.nz16(v)
		}
		if mn == TAX {
			a.X = v
		} else {
			a.Y = v
		}
		a.PC += n
	case TXA, TYA:
		v := a.xr()
		if mn == TYA {
			v = a.yr()
		}
		if m8 {
			a.C = a.C&0xFF00 | v&0xFF
			a.nz8(uint8(v))
		} else {
			a.C = v
			a.nz16(v)
		}
		a.PC += n
	case TXY:
		a.Y = a.xr()
		if x8 {
			a.nz8(uint8(a.Y))
		} else {
			a.nz16(a.Y)
		}
		a.PC += n
	case TYX:
		a.X = a.yr()
		if x8 {
			a.nz8(uint8(a.X))
		} else {
			a.nz16(a.X)
		}
		a.PC += n
	case TSX:
		if x8 {
			a.X = a.S & 0xFF
			a.nz8(uint8(a.X))
		} else {
			a.X = a.S
			a.nz16(a.X)
		}
		a.PC += n
	case TXS:
		a.S = a.xr()
		a.PC += n
	case TCS:
		a.S = a.C
		a.PC += n
	case TSC:
		a.C = a.S
		a.nz16(a.C)
		a.PC += n
	case TCD:
		a.D = a.C
		a.nz16(a.D)
		a.PC += n
	case TDC:
		a.C = a.D
		a.nz16(a.C)
		a.PC += n
	case XBA:
		a.C = a.C<<8 | a.C>>8
		a.nz8(uint8(a.C))
		a.PC += n
	// ---- block moves
	case MVN, MVP:
		k := uint32(a.K) << 16
		dst := rd(m, k|uint32(a.PC+1))
		src := rd(m, k|uint32(a.PC+2))
		wr(m, uint32(dst)<<16|uint32(a.yr()), rd(m, uint32(src)<<16|uint32(a.xr())))
		var d uint16 = 1
		if mn == MVP {
			d = 0xFFFF
		}
		a.X, a.Y = a.xr()+d, a.yr()+d
		if x8 {
			a.X &= 0xFF
			a.Y &= 0xFF
		}
		a.DBR = dst
		a.C--
		if a.C == 0xFFFF {
			a.PC += n
		}
	// ---- misc
	case NOP, WAI:
		a.PC += n
	case WDM:
		a.PC += n
	case STP:
		a.Stopped = true
		a.PC += n
	}
}
