// Package cartmap is the declarative transcription of the bus->pak region tables that the
// four mapper packages document about themselves (region comments in each mapping.go, the
// sa1rom package comment, and the baseline test rows). It is data plus one generic lookup;
// the implementations are if/else arithmetic, so a changed mask or comparison disagrees.
package cartmap

const (
	LoROM = iota
	HiROM
	ExHiROM
	SA1
	NumMappers
)

const (
	ClassNone = iota
	ClassROM
	ClassSRAM
	ClassWRAM
)

const (
	ROMBase  = 0x000000
	SRAMBase = 0xE00000
	WRAMBase = 0xF50000
)

// Row: banks [BankLo,BankHi] x offsets [OffLo,OffHi] belong to Class at linear position Pos(bank, offs).
type Row struct {
	BankLo, BankHi uint32
	OffLo, OffHi   uint32
	Class          int
	Pos            func(bank, offs uint32) uint32
}

func hb(bank, offs uint32) uint32 { return bank<<15 | offs&0x7FFF }

// Console-owned regions, common to all mappers.
var console = []Row{
	{0x7E, 0x7F, 0x0000, 0xFFFF, ClassWRAM, func(b, o uint32) uint32 { return (b-0x7E)<<16 | o }},
	{0x00, 0x3F, 0x0000, 0x1FFF, ClassWRAM, func(b, o uint32) uint32 { return o }},
	{0x80, 0xBF, 0x0000, 0x1FFF, ClassWRAM, func(b, o uint32) uint32 { return o }},
}

var tables = [NumMappers][]Row{
	LoROM: {
		{0x00, 0x7D, 0x8000, 0xFFFF, ClassROM, func(b, o uint32) uint32 { return hb(b&0x3F, o) }},
		{0x80, 0xFF, 0x8000, 0xFFFF, ClassROM, func(b, o uint32) uint32 { return hb(b&0x3F, o) }},
		{0x70, 0x7D, 0x0000, 0x7FFF, ClassSRAM, func(b, o uint32) uint32 { return hb(b-0x70, o) }},
		{0xF0, 0xFF, 0x0000, 0x7FFF, ClassSRAM, func(b, o uint32) uint32 { return hb(b-0xF0, o) }},
		{0x40, 0x6F, 0x0000, 0x1FFF, ClassWRAM, func(b, o uint32) uint32 { return o }},
		{0xC0, 0xEF, 0x0000, 0x1FFF, ClassWRAM, func(b, o uint32) uint32 { return o }},
	},
	HiROM: {
		{0x40, 0x7D, 0x0000, 0xFFFF, ClassROM, func(b, o uint32) uint32 { return (b<<16 | o) & 0x3FFFFF }},
		{0xC0, 0xFF, 0x0000, 0xFFFF, ClassROM, func(b, o uint32) uint32 { return (b<<16 | o) & 0x3FFFFF }},
		{0x00, 0x3F, 0x8000, 0xFFFF, ClassROM, func(b, o uint32) uint32 { return hb(b&0x3F, o) }},
		{0x80, 0xBF, 0x8000, 0xFFFF, ClassROM, func(b, o uint32) uint32 { return hb(b&0x3F, o) }},
		{0x20, 0x3F, 0x6000, 0x7FFF, ClassSRAM, func(b, o uint32) uint32 { return (b&0x1F)<<13 | o&0x1FFF }},
		{0xA0, 0xBF, 0x6000, 0x7FFF, ClassSRAM, func(b, o uint32) uint32 { return (b&0x1F)<<13 | o&0x1FFF }},
	},
	ExHiROM: {
		{0xC0, 0xFF, 0x0000, 0xFFFF, ClassROM, func(b, o uint32) uint32 { return (b<<16 | o) & 0x3FFFFF }},
		{0x80, 0xBF, 0x8000, 0xFFFF, ClassROM, func(b, o uint32) uint32 { return hb(b&0x3F, o) }},
		{0x40, 0x7D, 0x0000, 0xFFFF, ClassROM, func(b, o uint32) uint32 { return 0x400000 + (b<<16|o)&0x3FFFFF }},
		{0x00, 0x3F, 0x8000, 0xFFFF, ClassROM, func(b, o uint32) uint32 { return 0x400000 + hb(b, o) }},
		{0xA0, 0xBF, 0x6000, 0x7FFF, ClassSRAM, func(b, o uint32) uint32 { return (b-0xA0)<<13 | o&0x1FFF }},
	},
	SA1: {
		{0xC0, 0xFF, 0x0000, 0xFFFF, ClassROM, func(b, o uint32) uint32 { return (b-0xC0)<<16 | o }},
		{0x00, 0x3F, 0x8000, 0xFFFF, ClassROM, func(b, o uint32) uint32 { return hb(b, o) }},
		{0x80, 0xBF, 0x8000, 0xFFFF, ClassROM, func(b, o uint32) uint32 { return hb(b-0x40, o) }},
		{0x00, 0x3F, 0x6000, 0x7FFF, ClassSRAM, func(b, o uint32) uint32 { return o - 0x6000 }},
		{0x80, 0xBF, 0x6000, 0x7FFF, ClassSRAM, func(b, o uint32) uint32 { return o - 0x6000 }},
		{0x40, 0x43, 0x0000, 0xFFFF, ClassSRAM, func(b, o uint32) uint32 { return (b-0x40)<<16 | o }},
		{0x44, 0x4F, 0x0000, 0xFFFF, ClassSRAM, func(b, o uint32) uint32 { return o & 0x1FFF }},
	},
}

func find(rows []Row, bank, offs uint32) (class int, pos uint32) {
	for _, r := range rows {
		if bank >= r.BankLo && bank <= r.BankHi && offs >= r.OffLo && offs <= r.OffHi {
			return r.Class, r.Pos(bank, offs)
		}
	}
	return ClassNone, 0
}

// ClassBase returns the first pak address of a class window.
func ClassBase(class int) uint32 {
	switch class {
	case ClassROM:
		return ROMBase
	case ClassSRAM:
		return SRAMBase
	case ClassWRAM:
		return WRAMBase
	}
	return 0
}

// Lookup gives the documented translation of a 24-bit bus address: class, pak address, mapped.
func Lookup(mapper int, bus uint32) (class int, pak uint32, ok bool) {
	bank, offs := bus>>16, bus&0xFFFF
	class, pos := find(console, bank, offs)
	if class == ClassNone {
		class, pos = find(tables[mapper], bank, offs)
	}
	if class == ClassNone {
		return ClassNone, 0, false
	}
	return class, ClassBase(class) + pos, true
}

// Console reports the console-owned translation only.
func Console(bus uint32) (pak uint32, ok bool) {
	class, pos := find(console, bus>>16, bus&0xFFFF)
	if class == ClassNone {
		return 0, false
	}
	return WRAMBase + pos, true
}

// ClassOfPak classifies a pak address by the fixed class windows.
func ClassOfPak(p uint32) int {
	switch {
	case p < 0xE00000:
		return ClassROM
	case p < 0xF00000:
		return ClassSRAM
	case p >= 0xF50000 && p <= 0xF6FFFF:
		return ClassWRAM
	}
	return ClassNone
}

// ClassOfAcceptedPak classifies an address that PakAddressToBus accepts: the windows above
// are extended by the pak banks $F7-$FF, which every mapper documents as mirrors that
// collapse onto WRAM (C04: "mirrored FX Pak Pro addresses collapse onto their canonical copy").
func ClassOfAcceptedPak(p uint32) int {
	if p >= 0xF50000 {
		return ClassWRAM
	}
	return ClassOfPak(p)
}
