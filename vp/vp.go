// Package vp is the harness API. Inside the symbolic engine every function here is
// intercepted (inputs become SMT variables, Assert becomes a solver query). Compiled
// natively, inputs come from a replay file (VERIF_REPLAY) or from a seeded hash
// (VERIF_SEED, conformance mode), and Assert records failures.
package vp

import (
	"encoding/json"
	"fmt"
	"hash/fnv"
	"os"
	"strconv"
)

type Replay struct {
	Scalars map[string]uint64            `json:"scalars"`
	Arrays  map[string]map[string]uint64 `json:"arrays"`
	Choices []struct {
		Name string
		Val  int
	} `json:"choices"`
}

var (
	replay   *Replay
	seed     uint64
	random   bool
	Failures []string // labels of failed assertions
	Reached  []string
	Observed []string
	// AssumeFailed is set when an assumption does not hold for the supplied inputs.
	AssumeFailed bool
	choiceUse    = map[string]int{}
)

type assumeStop struct{}

// Reset prepares the native runtime for one harness run.
func Reset(r *Replay, sd uint64, rnd bool) {
	replay, seed, random = r, sd, rnd
	Failures, Reached, Observed = nil, nil, nil
	AssumeFailed = false
	choiceUse = map[string]int{}
}

// LoadReplay reads a replay model written by the engine.
func LoadReplay(path string) (*Replay, error) {
	b, err := os.ReadFile(path)
	if err != nil {
		return nil, err
	}
	var r Replay
	if err := json.Unmarshal(b, &r); err != nil {
		return nil, err
	}
	return &r, nil
}

// Run executes f, absorbing the early exit of a failed assumption.
func Run(f func()) (panicked interface{}) {
	defer func() {
		if r := recover(); r != nil {
			if _, ok := r.(assumeStop); ok {
				return
			}
			panicked = r
		}
	}()
	f()
	return nil
}

func hashValue(seed uint64, name string, idx uint64) uint64 {
	h := fnv.New64a()
	var b [16]byte
	for i := 0; i < 8; i++ {
		b[i] = byte(seed >> (8 * i))
		b[8+i] = byte(idx >> (8 * i))
	}
	h.Write(b[:])
	h.Write([]byte(name))
	x := h.Sum64()
	x ^= x >> 33
	x *= 0xff51afd7ed558ccd
	x ^= x >> 33
	return x
}

func scalar(name string) uint64 {
	if replay != nil {
		if v, ok := replay.Scalars[name]; ok {
			return v
		}
	}
	if random {
		return hashValue(seed, name, 0)
	}
	return 0
}

func U8(name string) uint8   { return uint8(scalar(name)) }
func U16(name string) uint16 { return uint16(scalar(name)) }
func U32(name string) uint32 { return uint32(scalar(name)) }
func U64(name string) uint64 { return scalar(name) }
func Int(name string) int    { return int(scalar(name)) }
func Bool(name string) bool  { return scalar(name)&1 == 1 }

func fill(name string, p []byte) {
	for i := range p {
		p[i] = 0
	}
	if replay != nil {
		if m, ok := replay.Arrays[name]; ok {
			for k, v := range m {
				i, _ := strconv.ParseUint(k, 10, 64)
				if i < uint64(len(p)) {
					p[i] = byte(v)
				}
			}
			return
		}
	}
	if random && len(p) <= 4096 {
		for i := range p {
			p[i] = byte(hashValue(seed, name, uint64(i)))
		}
	}
}

// Bytes returns a fresh byte slice of length n with arbitrary contents.
func Bytes(name string, n int) []byte {
	p := make([]byte, n)
	fill(name, p)
	return p
}

// FillBytes gives p (which must cover a whole array) arbitrary contents.
func FillBytes(name string, p []byte) { fill(name, p) }

func Assume(c bool) {
	if !c {
		AssumeFailed = true
		panic(assumeStop{})
	}
}

func Assert(label string, c bool) {
	if !c {
		Failures = append(Failures, label)
	}
}

func Reach(label string)       { Reached = append(Reached, label) }
func Tag(label string, c bool) {}
func Note(text string)         {}

// Try runs f and reports whether it panicked.
func Try(f func()) (panicked bool) {
	defer func() {
		if r := recover(); r != nil {
			if _, ok := r.(assumeStop); ok {
				panic(r)
			}
			panicked = true
		}
	}()
	f()
	return false
}

// Choose returns a structural choice in [0,n).
func Choose(name string, n int) int {
	if replay != nil {
		k := choiceUse[name]
		seen := 0
		for _, c := range replay.Choices {
			if c.Name == name {
				if seen == k {
					choiceUse[name] = k + 1
					return c.Val
				}
				seen++
			}
		}
		if v, ok := replay.Scalars["choose:"+name]; ok {
			return int(v)
		}
	}
	if random {
		return int(hashValue(seed, "choose:"+name, 0) % uint64(n))
	}
	return 0
}

func BytesEqual(a, b []byte) bool {
	if len(a) != len(b) {
		return false
	}
	for i := range a {
		if a[i] != b[i] {
			return false
		}
	}
	return true
}

func ObserveU64(name string, v uint64) { Observed = append(Observed, fmt.Sprintf("%s=%d", name, v)) }
func ObserveStr(name string, v string) { Observed = append(Observed, fmt.Sprintf("%s=%q", name, v)) }
func ObserveBytes(name string, v []byte) {
	Observed = append(Observed, fmt.Sprintf("%s=%q", name, string(v)))
}

// IsConcrete reports whether b is a known constant. Natively every byte is; inside the engine it
// is false for bytes that depend on symbolic inputs. Harness parsers use it to look for
// punctuation only among bytes that cannot be symbolic hex digits.
func IsConcrete(b uint8) bool { return true }

// Conformance reports whether this is a conformance run (pseudo-random concrete inputs).
func Conformance() bool { return random }

// Symbolic reports whether the harness runs inside the symbolic engine with symbolic inputs.
func Symbolic() bool { return false }
