// Package c01: both interpreters follow the WDC 65C816 model in native mode (property C01).
package c01

import (
	"verif/harness/cpuenv"
	"verif/spec/w65816"
	"verif/vp"
)

// Step executes opcode op on interpreter cpu (0 = cpu65c816, 1 = cpualt) with widths m, x from an
// arbitrary native-mode state and memory, and compares every architectural component with the
// reference model.
func Step(cpu int, op int, m int, x int) {
	pre := cpuenv.ArbitraryPre(uint8(m), uint8(x), 0)
	pre.Interrupt = pre.Interrupt & 1 // 0 (fresh) or 1 (none pending)
	opAddr := uint32(pre.RK)<<16 | uint32(pre.PC)

	var implMem []byte
	if cpu == 0 {
		implMem = cpuenv.MainMem
	} else {
		implMem = cpuenv.AltMem
	}
	vp.FillBytes("mem", implMem)
	vp.FillBytes("mem", cpuenv.SpecMem)
	implMem[opAddr] = uint8(op)
	cpuenv.SpecMem[opAddr] = uint8(op)
	if vp.Conformance() {
		// conformance runs: large arrays are zero-filled, so give the instruction random operand bytes
		for i := uint16(1); i <= 3; i++ {
			a := uint32(pre.RK)<<16 | uint32(pre.PC+i)
			v := vp.U8("operand" + string(rune('0'+i)))
			implMem[a], cpuenv.SpecMem[a] = v, v
		}
	}

	var a w65816.Arch
	if cpu == 0 {
		pre.ToMain(cpuenv.Main)
		a = cpuenv.AbstractMain(cpuenv.Main)
	} else {
		pre.ToAlt(cpuenv.Alt)
		a = cpuenv.AbstractAlt(cpuenv.Alt)
	}
	tags(&a, uint8(op))

	w65816.Step(&a, cpuenv.SpecMem)
	vp.Assume(!a.BCDInvalid)

	var got w65816.Arch
	var fl [9]uint8
	var panicked bool
	if cpu == 0 {
		c := cpuenv.Main
		panicked = vp.Try(func() { c.Step() })
		got = cpuenv.AbstractMain(c)
		fl = [9]uint8{c.N, c.V, c.M, c.X, c.D, c.I, c.Z, c.C, c.E}
	} else {
		c := cpuenv.Alt
		panicked = vp.Try(func() { c.Step() })
		got = cpuenv.AbstractAlt(c)
		fl = [9]uint8{c.N, c.V, c.M, c.X, c.D, c.I, c.Z, c.C, c.E}
	}
	vp.Assert("completes-without-runtime-failure", !panicked)
	if panicked {
		return
	}
	vp.Assert("flag-bytes-stay-0-or-1", cpuenv.FlagsValid(fl[0], fl[1], fl[2], fl[3], fl[4], fl[5], fl[6], fl[7], fl[8]))
	vp.Assert("accumulator-C", got.C == a.C)
	vp.Assert("index-X", got.X == a.X)
	vp.Assert("index-Y", got.Y == a.Y)
	vp.Assert("stack-pointer", got.S == a.S)
	vp.Assert("direct-register", got.D == a.D)
	vp.Assert("data-bank", got.DBR == a.DBR)
	vp.Assert("program-bank", got.K == a.K)
	vp.Assert("program-counter", got.PC == a.PC)
	pm := uint8(0xFF)
	if a.Decimal {
		pm = 0xFF &^ w65816.FV // V after decimal ADC/SBC is outside the claim
	}
	vp.Assert("status-N", (got.P^a.P)&pm&w65816.FN == 0)
	vp.Assert("status-V", (got.P^a.P)&pm&w65816.FV == 0)
	vp.Assert("status-M", (got.P^a.P)&w65816.FM == 0)
	vp.Assert("status-X", (got.P^a.P)&w65816.FX == 0)
	vp.Assert("status-D", (got.P^a.P)&w65816.FD == 0)
	vp.Assert("status-I", (got.P^a.P)&w65816.FI == 0)
	vp.Assert("status-Z", (got.P^a.P)&w65816.FZ == 0)
	vp.Assert("status-C", (got.P^a.P)&w65816.FC == 0)
	vp.Assert("emulation-flag", got.E == a.E)
	vp.Assert("stopped", got.Stopped == a.Stopped)
	vp.Assert("memory", vp.BytesEqual(implMem, cpuenv.SpecMem))
	vp.Reach("end")
}

// Step2 executes two consecutive instructions (op1, then op2 at wherever op1 left the program
// counter) and compares the state after the second one with two steps of the reference model.
// It reaches behaviour that one step from the harness's pre-state cannot: state an interpreter
// keeps between steps outside the fields listed in cpuenv.Pre (a repeating block move is
// re-executed once per byte, so MVN/MVP twice is "the second iteration").
func Step2(cpu int, op1 int, op2 int, m int, x int) {
	seq(cpu, []int{op1, op2}, m, x)
}

// Step3: three consecutive instructions, the first two setting the scene (same reading as Step2).
func Step3(cpu int, op1 int, op2 int, op3 int, m int, x int) {
	seq(cpu, []int{op1, op2, op3}, m, x)
}

func seq(cpu int, ops []int, m int, x int) {
	op1 := ops[0]
	pre := cpuenv.ArbitraryPre(uint8(m), uint8(x), 0)
	pre.Interrupt = pre.Interrupt & 1
	opAddr := uint32(pre.RK)<<16 | uint32(pre.PC)

	var implMem []byte
	if cpu == 0 {
		implMem = cpuenv.MainMem
	} else {
		implMem = cpuenv.AltMem
	}
	vp.FillBytes("mem", implMem)
	vp.FillBytes("mem", cpuenv.SpecMem)
	implMem[opAddr] = uint8(op1)
	cpuenv.SpecMem[opAddr] = uint8(op1)
	if vp.Conformance() {
		for i := uint16(1); i <= 3; i++ {
			a := uint32(pre.RK)<<16 | uint32(pre.PC+i)
			v := vp.U8("operand" + string(rune('0'+i)))
			implMem[a], cpuenv.SpecMem[a] = v, v
		}
	}

	var a w65816.Arch
	if cpu == 0 {
		pre.ToMain(cpuenv.Main)
		a = cpuenv.AbstractMain(cpuenv.Main)
	} else {
		pre.ToAlt(cpuenv.Alt)
		a = cpuenv.AbstractAlt(cpuenv.Alt)
	}
	tags(&a, uint8(op1))

	var panicked bool
	for k := 1; k < len(ops); k++ {
		op2 := ops[k]
		// earlier instructions: agreement is the obligation of Step; here it only sets the scene
		w65816.Step(&a, cpuenv.SpecMem)
		vp.Assume(!a.BCDInvalid && !a.E && !a.Stopped)
		var mid w65816.Arch
		if cpu == 0 {
			c := cpuenv.Main
			panicked = vp.Try(func() { c.Step() })
			mid = cpuenv.AbstractMain(c)
		} else {
			c := cpuenv.Alt
			panicked = vp.Try(func() { c.Step() })
			mid = cpuenv.AbstractAlt(c)
		}
		if panicked {
			vp.Reach("earlier-step-failed")
			return
		}
		// the inductive reading: "if the first instruction agreed with the model, so does the second"
		// (a first instruction that disagrees is reported by Step, and would otherwise be reported twice)
		vp.Assume(mid.C == a.C && mid.X == a.X && mid.Y == a.Y && mid.S == a.S && mid.D == a.D && mid.DBR == a.DBR && mid.K == a.K && mid.PC == a.PC && mid.P == a.P && mid.E == a.E)
		vp.Assume(vp.BytesEqual(implMem, cpuenv.SpecMem))
		implPC := uint32(mid.K)<<16 | uint32(mid.PC)
		specPC := uint32(a.K)<<16 | uint32(a.PC)
		implMem[implPC] = uint8(op2)
		cpuenv.SpecMem[specPC] = uint8(op2)

	}

	w65816.Step(&a, cpuenv.SpecMem)
	vp.Assume(!a.BCDInvalid)

	var got w65816.Arch
	var fl [9]uint8
	if cpu == 0 {
		c := cpuenv.Main
		panicked = vp.Try(func() { c.Step() })
		got = cpuenv.AbstractMain(c)
		fl = [9]uint8{c.N, c.V, c.M, c.X, c.D, c.I, c.Z, c.C, c.E}
	} else {
		c := cpuenv.Alt
		panicked = vp.Try(func() { c.Step() })
		got = cpuenv.AbstractAlt(c)
		fl = [9]uint8{c.N, c.V, c.M, c.X, c.D, c.I, c.Z, c.C, c.E}
	}
	vp.Assert("completes-without-runtime-failure", !panicked)
	if panicked {
		return
	}
	vp.Assert("flag-bytes-stay-0-or-1", cpuenv.FlagsValid(fl[0], fl[1], fl[2], fl[3], fl[4], fl[5], fl[6], fl[7], fl[8]))
	vp.Assert("accumulator-C", got.C == a.C)
	vp.Assert("index-X", got.X == a.X)
	vp.Assert("index-Y", got.Y == a.Y)
	vp.Assert("stack-pointer", got.S == a.S)
	vp.Assert("direct-register", got.D == a.D)
	vp.Assert("data-bank", got.DBR == a.DBR)
	vp.Assert("program-bank", got.K == a.K)
	vp.Assert("program-counter", got.PC == a.PC)
	pm := uint8(0xFF)
	if a.Decimal {
		pm = 0xFF &^ w65816.FV
	}
	vp.Assert("status-N", (got.P^a.P)&pm&w65816.FN == 0)
	vp.Assert("status-V", (got.P^a.P)&pm&w65816.FV == 0)
	vp.Assert("status-M", (got.P^a.P)&w65816.FM == 0)
	vp.Assert("status-X", (got.P^a.P)&w65816.FX == 0)
	vp.Assert("status-D", (got.P^a.P)&w65816.FD == 0)
	vp.Assert("status-I", (got.P^a.P)&w65816.FI == 0)
	vp.Assert("status-Z", (got.P^a.P)&w65816.FZ == 0)
	vp.Assert("status-C", (got.P^a.P)&w65816.FC == 0)
	vp.Assert("emulation-flag", got.E == a.E)
	vp.Assert("stopped", got.Stopped == a.Stopped)
	vp.Assert("memory", vp.BytesEqual(implMem, cpuenv.SpecMem))
	vp.Reach("end")
}

// tags exposes region predicates for known findings (DESIGN Appendix D).
func tags(a *w65816.Arch, op uint8) {
	vp.Tag("D=1", a.P&w65816.FD != 0)
	vp.Tag("pc_within_3_of_bank_end", a.PC >= 0xFFFD)
	vp.Tag("bank_is_even", a.K&1 == 0)
	vp.Tag("dbr_is_FF", a.DBR == 0xFF)
}
