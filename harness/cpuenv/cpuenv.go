// Package cpuenv builds, once, the two CPU interpreters over fully mapped 16 MiB buses.
// The package initialiser runs natively (replay/conformance) and inside the engine
// (concretely, as part of package initialisation); every job forks from the result.
package cpuenv

import (
	"github.com/alttpo/snes/emulator"
	"github.com/alttpo/snes/emulator/bus"
	"github.com/alttpo/snes/emulator/cpu65c816"
	"github.com/alttpo/snes/emulator/cpualt"
	"github.com/alttpo/snes/emulator/memory"

	"verif/spec/w65816"
	"verif/vp"
)

var (
	MainMem = make([]byte, 1<<24)
	AltMem  = make([]byte, 1<<24)
	SpecMem = make([]byte, 1<<24)
	MainBus *bus.Bus
	Main    *cpu65c816.CPU
	Alt     *cpualt.CPU
	// AltCopy is made with InitFrom from the fully set-up Alt (it shares Alt's memory devices).
	AltCopy *cpualt.CPU
	// MainCopy is made with InitFrom from Main, over the same bus.
	MainCopy *cpu65c816.CPU
	// Sys is an emulator.System whose bus is a copy of MainBus (one RAM over MainMem, whole range).
	Sys *emulator.System
)

func init() { Rebuild() }

// Rebuild makes fresh interpreter objects over the same memories. The engine forks every job from the
// state after package initialisation; the native replayer calls Rebuild before every job, so that state
// an interpreter keeps outside the fields the harnesses overwrite starts from its zero value there too.
func Rebuild() {
	MainBus, _ = bus.New()
	if err := MainBus.Attach(memory.NewRAM(MainMem, 0), "ram", 0x000000, 0xFFFFFF); err != nil {
		panic(err)
	}
	Main, _ = cpu65c816.New(MainBus)
	// InitFrom builds the opcode table without Bus.Init's 2^21 open-bus closures; every table entry is
	// attached below, and every register is overwritten by the harnesses
	Alt = &cpualt.CPU{}
	Alt.InitFrom(&cpualt.CPU{})
	Alt.Bus.AttachReader(0x000000, 0xFFFFFF, func(addr uint32) uint8 { return AltMem[addr] })
	Alt.Bus.AttachWriter(0x000000, 0xFFFFFF, func(addr uint32, val uint8) { AltMem[addr] = val })
	AltCopy = &cpualt.CPU{}
	AltCopy.InitFrom(Alt)
	MainCopy = &cpu65c816.CPU{}
	MainCopy.InitFrom(Main, MainBus)
	Sys = &emulator.System{}
	Sys.Bus = *MainBus
	Sys.CPU.Init(&Sys.Bus)
}

// Pre is an arbitrary register state (all raw fields of the interpreters' CPU structs).
type Pre struct {
	PC, SP, RA, RX, RY, RD       uint16
	RAh, RAl, RXl, RYl, RDBR, RK uint8
	N, V, M, X, D, I, Z, C, B, E uint8
	Interrupt, Cycles, WDM, PRK  uint8
	PPC                          uint16
	AllCycles                    uint64
	Stopped                      bool
	EA                           uint32
	Addr                         uint16
	Mode                         uint8
	BusM                         uint8
}

func bit(name string) uint8 {
	if vp.Bool(name) {
		return 1
	}
	return 0
}

// ArbitraryPre draws every field; M, X, E are fixed by the caller.
func ArbitraryPre(m, x, e uint8) Pre {
	return Pre{
		PC: vp.U16("PC"), SP: vp.U16("SP"), RA: vp.U16("RA"), RX: vp.U16("RX"), RY: vp.U16("RY"), RD: vp.U16("RD"),
		RAh: vp.U8("RAh"), RAl: vp.U8("RAl"), RXl: vp.U8("RXl"), RYl: vp.U8("RYl"), RDBR: vp.U8("RDBR"), RK: vp.U8("RK"),
		N: bit("fN"), V: bit("fV"), M: m, X: x, D: bit("fD"), I: bit("fI"), Z: bit("fZ"), C: bit("fC"), B: bit("fB"), E: e,
		Interrupt: bit("intr"), Cycles: vp.U8("Cycles"), WDM: vp.U8("WDM"), PRK: vp.U8("PRK"), PPC: vp.U16("PPC"),
		AllCycles: vp.U64("AllCycles"),
		EA:        vp.U32("siEA"), Addr: vp.U16("siAddr"), Mode: vp.U8("siMode"), BusM: vp.U8("busM"),
	}
}

func (p Pre) ToMain(c *cpu65c816.CPU) {
	c.PC, c.SP, c.RA, c.RX, c.RY, c.RD = p.PC, p.SP, p.RA, p.RX, p.RY, p.RD
	c.RAh, c.RAl, c.RXl, c.RYl, c.RDBR, c.RK = p.RAh, p.RAl, p.RXl, p.RYl, p.RDBR, p.RK
	c.N, c.V, c.M, c.X, c.D, c.I, c.Z, c.C, c.B, c.E = p.N, p.V, p.M, p.X, p.D, p.I, p.Z, p.C, p.B, p.E
	c.Interrupt, c.Cycles, c.WDM, c.PRK, c.PPC, c.AllCycles, c.Stopped = p.Interrupt, p.Cycles, p.WDM, p.PRK, p.PPC, p.AllCycles, p.Stopped
	c.StepInfo.EA, c.StepInfo.Addr, c.StepInfo.Mode = p.EA, p.Addr, p.Mode
	c.OnPC, c.OnWDM = nil, nil
}

func (p Pre) ToAlt(c *cpualt.CPU) {
	c.PC, c.SP, c.RA, c.RX, c.RY, c.RD = p.PC, p.SP, p.RA, p.RX, p.RY, p.RD
	c.RAh, c.RAl, c.RXl, c.RYl, c.RDBR, c.RK = p.RAh, p.RAl, p.RXl, p.RYl, p.RDBR, p.RK
	c.N, c.V, c.M, c.X, c.D, c.I, c.Z, c.C, c.B, c.E = p.N, p.V, p.M, p.X, p.D, p.I, p.Z, p.C, p.B, p.E
	c.Interrupt, c.Cycles, c.WDM, c.PRK, c.PPC, c.AllCycles, c.Stopped = p.Interrupt, p.Cycles, p.WDM, p.PRK, p.PPC, p.AllCycles, p.Stopped
	c.StepInfo.EA, c.StepInfo.Addr, c.StepInfo.Mode = p.EA, p.Addr, p.Mode
	c.OnPC, c.OnWDM = nil, nil
	c.Bus.M = p.BusM
}

// Abstract maps raw interpreter fields to the architectural state (native or emulation).
func Abstract(PC, SP, RA, RX, RY, RD uint16, RAh, RAl, RXl, RYl, RDBR, RK, N, V, M, X, D, I, Z, C, E uint8, stopped bool) w65816.Arch {
	var a w65816.Arch
	if M == 1 {
		a.C = uint16(RAh)<<8 | uint16(RAl)
	} else {
		a.C = RA
	}
	if X == 1 {
		a.X, a.Y = uint16(RXl), uint16(RYl)
	} else {
		a.X, a.Y = RX, RY
	}
	a.S, a.D, a.DBR, a.K, a.PC = SP, RD, RDBR, RK, PC
	a.P = N<<7 | V<<6 | M<<5 | X<<4 | D<<3 | I<<2 | Z<<1 | C
	a.E = E == 1
	a.Stopped = stopped
	return a
}

func AbstractMain(c *cpu65c816.CPU) w65816.Arch {
	return Abstract(c.PC, c.SP, c.RA, c.RX, c.RY, c.RD, c.RAh, c.RAl, c.RXl, c.RYl, c.RDBR, c.RK, c.N, c.V, c.M, c.X, c.D, c.I, c.Z, c.C, c.E, c.Stopped)
}

func AbstractAlt(c *cpualt.CPU) w65816.Arch {
	return Abstract(c.PC, c.SP, c.RA, c.RX, c.RY, c.RD, c.RAh, c.RAl, c.RXl, c.RYl, c.RDBR, c.RK, c.N, c.V, c.M, c.X, c.D, c.I, c.Z, c.C, c.E, c.Stopped)
}

// FlagsValid is the representation invariant on flag bytes.
func FlagsValid(N, V, M, X, D, I, Z, C, E uint8) bool {
	return N|V|M|X|D|I|Z|C|E <= 1
}

// FromMain / FromAlt read every raw field back (the inverse of ToMain / ToAlt).
func FromMain(c *cpu65c816.CPU) Pre {
	return Pre{PC: c.PC, SP: c.SP, RA: c.RA, RX: c.RX, RY: c.RY, RD: c.RD, RAh: c.RAh, RAl: c.RAl, RXl: c.RXl, RYl: c.RYl, RDBR: c.RDBR, RK: c.RK,
		N: c.N, V: c.V, M: c.M, X: c.X, D: c.D, I: c.I, Z: c.Z, C: c.C, B: c.B, E: c.E,
		Interrupt: c.Interrupt, Cycles: c.Cycles, WDM: c.WDM, PRK: c.PRK, PPC: c.PPC, AllCycles: c.AllCycles, Stopped: c.Stopped,
		EA: c.StepInfo.EA, Addr: c.StepInfo.Addr, Mode: c.StepInfo.Mode}
}

func FromAlt(c *cpualt.CPU) Pre {
	return Pre{PC: c.PC, SP: c.SP, RA: c.RA, RX: c.RX, RY: c.RY, RD: c.RD, RAh: c.RAh, RAl: c.RAl, RXl: c.RXl, RYl: c.RYl, RDBR: c.RDBR, RK: c.RK,
		N: c.N, V: c.V, M: c.M, X: c.X, D: c.D, I: c.I, Z: c.Z, C: c.C, B: c.B, E: c.E,
		Interrupt: c.Interrupt, Cycles: c.Cycles, WDM: c.WDM, PRK: c.PRK, PPC: c.PPC, AllCycles: c.AllCycles, Stopped: c.Stopped,
		EA: c.StepInfo.EA, Addr: c.StepInfo.Addr, Mode: c.StepInfo.Mode, BusM: c.Bus.M}
}
