// Package c11: the emulated System's memory map is the LoROM map of the mapper package (C11).
package c11

import (
	"github.com/alttpo/snes/emulator"
	"github.com/alttpo/snes/mapping/lorom"

	"verif/spec/cartmap"
	"verif/vp"
)

// S is built once (package initialisation runs the real CreateEmulator, natively and in the engine).
var S = &emulator.System{}

var shadowROM = make([]byte, len(S.ROM))
var shadowWRAM = make([]byte, len(S.WRAM))
var shadowSRAM = make([]byte, len(S.SRAM))

func init() {
	if err := S.CreateEmulator(); err != nil {
		panic(err)
	}
}

// Address: one read and one write through the emulator's bus at an arbitrary 24-bit address, with
// arbitrary contents of the three backing arrays, compared with the cell the LoROM mapper designates.
func Address(bank int) {
	vp.FillBytes("rom", S.ROM[:])
	vp.FillBytes("wram", S.WRAM[:])
	vp.FillBytes("sram", S.SRAM[:])
	vp.FillBytes("rom", shadowROM)
	vp.FillBytes("wram", shadowWRAM)
	vp.FillBytes("sram", shadowSRAM)
	a := uint32(bank)<<16 | uint32(vp.U16("offset"))
	var old byte
	if vp.Try(func() { old = S.Bus.EaRead(a) }) {
		vp.Reach("console-unmapped")
		return
	}
	nv := ^old
	if vp.Try(func() { S.Bus.EaWrite(a, nv) }) {
		vp.Reach("console-unmapped")
		return
	}
	romCh := !vp.BytesEqual(S.ROM[:], shadowROM)
	wramCh := !vp.BytesEqual(S.WRAM[:], shadowWRAM)
	sramCh := !vp.BytesEqual(S.SRAM[:], shadowSRAM)
	p, err := lorom.BusAddressToPak(a)
	if err != nil {
		vp.Reach("mapper-unmapped")
		return
	}
	if !romCh && !wramCh && !sramCh {
		// the console serves this address from something that is none of the three arrays (hardware
		// registers) although the mapper assigns it a memory class: a different class than assigned
		vp.Assert("console-backs-mapper-memory-with-that-memory", false)
		vp.Reach("console-register-area")
		return
	}
	class := cartmap.ClassOfPak(p)
	vp.Assert("same-memory-class", (class == cartmap.ClassROM && romCh && !wramCh && !sramCh) ||
		(class == cartmap.ClassWRAM && wramCh && !romCh && !sramCh) ||
		(class == cartmap.ClassSRAM && sramCh && !romCh && !wramCh))
	switch class {
	case cartmap.ClassROM:
		i := p - cartmap.ROMBase
		vp.Assert("read-returns-the-designated-byte", i < uint32(len(shadowROM)) && old == shadowROM[i])
		if i < uint32(len(shadowROM)) {
			shadowROM[i] = nv
		}
	case cartmap.ClassWRAM:
		i := p - cartmap.WRAMBase
		vp.Assert("read-returns-the-designated-byte", i < uint32(len(shadowWRAM)) && old == shadowWRAM[i])
		if i < uint32(len(shadowWRAM)) {
			shadowWRAM[i] = nv
		}
	case cartmap.ClassSRAM:
		i := p - cartmap.SRAMBase
		vp.Assert("read-returns-the-designated-byte", i < uint32(len(shadowSRAM)) && old == shadowSRAM[i])
		if i < uint32(len(shadowSRAM)) {
			shadowSRAM[i] = nv
		}
	}
	vp.Assert("write-changes-exactly-the-designated-byte",
		vp.BytesEqual(S.ROM[:], shadowROM) && vp.BytesEqual(S.WRAM[:], shadowWRAM) && vp.BytesEqual(S.SRAM[:], shadowSRAM))
	vp.Assert("read-after-write-sees-the-new-value", S.Bus.EaRead(a) == nv)
	vp.Reach("both-mapped")
}

// Long: the three-byte read the CPU uses for long operands and vectors (EaRead24_wrap) sees the
// same storage as three single reads, byte by byte, also where the three addresses fall into
// different memories of the console map (ROM / WRAM mirror / SRAM / registers) or wrap at the end
// of the bank. Single reads are compared with the mapper in Address.
func Long(bank int) {
	vp.FillBytes("rom", S.ROM[:])
	vp.FillBytes("wram", S.WRAM[:])
	vp.FillBytes("sram", S.SRAM[:])
	off := vp.U16("offset")
	var b [3]byte
	anyFail := false
	for k := 0; k < 3; k++ {
		a := uint32(bank)<<16 | uint32(off+uint16(k))
		if vp.Try(func() { b[k] = S.Bus.EaRead(a) }) {
			anyFail = true
		}
	}
	var got uint32
	failed := vp.Try(func() { got = S.Bus.EaRead24_wrap(uint8(bank), off) })
	if anyFail {
		vp.Assert("long-read-fails-when-one-of-its-bytes-is-unmapped", failed)
		vp.Reach("console-unmapped")
		return
	}
	vp.Assert("long-read-of-mapped-bytes-succeeds", !failed)
	vp.Assert("long-read-returns-the-three-bytes-single-reads-return", failed || got == uint32(b[0])|uint32(b[1])<<8|uint32(b[2])<<16)
	vp.Reach("mapped")
}
