// Package asmh holds the hand-written part of the asm harnesses; the per-method entry points
// are generated from the method set of *asm.Emitter on every run (internal/asmgen).
package asmh

import (
	"github.com/alttpo/snes/asm"

	"verif/spec/w65816"
	"verif/vp"
)

// The processor's own bit assignment in P / in a REP/SEP operand (WDC datasheet): m = $20, x = $10.
// The harnesses use these, not the library's named constants, so that a library whose names are
// attached to the wrong bits cannot agree with itself.
const (
	FlagM asm.Flags = 0x20
	FlagX asm.Flags = 0x10
)

const (
	GuardNone = iota
	GuardM8   // method requires the tracked accumulator width to be 8 bit
	GuardM16
	GuardX8
	GuardX16
)

// Spec is what the generator derived from the method name/signature and the 65816 opcode matrix.
type Spec struct {
	Opcode  uint8
	Operand []byte // expected operand bytes (little-endian), built from the symbolic arguments
	Guard   int
	Label   bool // label-reference form: operand is a placeholder of OperandLen bytes
	PadLen  int  // placeholder length for label forms
	Tracks  int  // effect on the tracked flags: 0 none, 1 SEP (set operand bits), 2 REP (clear operand bits)
}

func (s Spec) Len() int {
	if s.Label {
		return 1 + s.PadLen
	}
	return 1 + len(s.Operand)
}

// H is one emitter under test over a symbolic buffer.
type H struct {
	E      *asm.Emitter
	Buf    []byte
	orig   []byte
	n0     int
	pc0    uint32
	flags0 asm.Flags
	before []byte
}

// New builds an emitter over a 16-byte symbolic buffer with a symbolic (bank-contained) base,
// symbolic tracked flags and a 0-2 byte data prefix.
func New() *H {
	h := &H{}
	// the target is a window with spare capacity behind it (len 16, cap 19): the emitter must respect
	// the window's length, not the capacity of the array it happens to be cut from
	h.Buf = vp.Bytes("buf", 19)[:16]
	h.orig = make([]byte, 16)
	copy(h.orig, h.Buf)
	h.E = asm.NewEmitter(h.Buf, vp.Choose("listing", 2) == 1)
	if vp.Choose("setbase", 2) == 1 {
		base := vp.U32("base")
		vp.Assume(base < 1<<24 && base&0xFFFF <= 0xFFE0) // program stays inside one bank
		h.E.SetBase(base)
	}
	h.E.AssumeSEP(asm.Flags(vp.U8("tracked-flags")))
	switch vp.Choose("prefix", 3) {
	case 1:
		h.E.EmitBytes([]byte{vp.U8("p0")})
	case 2:
		h.E.EmitBytes([]byte{vp.U8("p0"), vp.U8("p1")})
	}
	h.n0, h.pc0, h.flags0 = h.E.Len(), h.E.PC(), h.E.Flags()
	h.before = make([]byte, h.n0)
	copy(h.before, h.E.Bytes())
	return h
}

func expectRefusal(guard int, f asm.Flags) bool {
	switch guard {
	case GuardM8:
		return f&FlagM == 0
	case GuardM16:
		return f&FlagM != 0
	case GuardX8:
		return f&FlagX == 0
	case GuardX16:
		return f&FlagX != 0
	}
	return false
}

// Refuses reports whether a width guard refuses a call under the tracked flags f.
func Refuses(guard int, f asm.Flags) bool { return expectRefusal(guard, f) }

// CheckGuard is the converse clause of C07: an immediate-operand method is refused exactly when
// its operand size disagrees with the tracked width.
func CheckGuard(refused bool, pre asm.Flags, guard int) {
	vp.Assert("refused-exactly-when-operand-size-disagrees-with-tracked-width", refused == expectRefusal(guard, pre))
	if refused {
		vp.Reach("refused")
	}
}

// Check asserts the C03 obligations after the call.
func (h *H) Check(refused bool, s Spec) {
	vp.Assert("refused-exactly-on-width-mismatch", refused == expectRefusal(s.Guard, h.flags0))
	if refused {
		vp.Reach("refused")
		return
	}
	e := h.E
	L := s.Len()
	vp.Assert("len-advances-by-instruction-length", e.Len() == h.n0+L)
	vp.Assert("pc-advances-by-instruction-length", e.PC() == h.pc0+uint32(L))
	out := e.Bytes()
	ok := len(out) == h.n0+L
	vp.Assert("bytes-has-the-new-length", ok)
	if !ok {
		return
	}
	vp.Assert("opcode-byte", out[h.n0] == s.Opcode)
	if !s.Label {
		same := true
		for i, b := range s.Operand {
			if out[h.n0+1+i] != b {
				same = false
			}
		}
		vp.Assert("operand-bytes-little-endian", same)
	}
	pre := true
	for i := 0; i < h.n0; i++ {
		if out[i] != h.before[i] {
			pre = false
		}
	}
	vp.Assert("earlier-bytes-unchanged", pre)
	rest := true
	for i := h.n0 + L; i < len(h.Buf); i++ {
		if h.Buf[i] != h.orig[i] {
			rest = false
		}
	}
	vp.Assert("buffer-beyond-the-instruction-untouched", rest)
	// independent decoder: the opcode matrix gives the same length back under the widths the
	// emitter tracks after the call (REP/SEP change them, which does not affect their own length)
	f := h.flags0
	m8, x8 := f&FlagM != 0, f&FlagX != 0
	vp.Assert("decoder-length-agrees", w65816.Len(s.Opcode, m8, x8) == L)
	want := h.flags0
	switch s.Tracks {
	case 1:
		want |= asm.Flags(s.Operand[0])
	case 2:
		want &^= asm.Flags(s.Operand[0])
	}
	vp.Assert("tracked-widths-follow-the-instruction", e.Flags() == want)
	vp.Reach("emitted")
}

// ---------------------------------------------------------------- C19

type H19 struct {
	E, Dry   *asm.Emitter
	Buf      []byte
	Cap, Pre int
	n0       int
	pc0      uint32
	before   []byte
	lab0     uint32
	labOK0   bool
	tail     [3]byte
}

// New19 builds an emitter over a buffer of capacity cp holding a prefix of pre bytes and one label,
// and a twin emitter without a buffer that received the same calls.
func New19(cp, pre int) *H19 {
	h := &H19{Cap: cp, Pre: pre}
	h.Buf = vp.Bytes("buf", cp+3)[:cp] // a window with spare capacity behind it
	h.tail = [3]byte{h.Buf[:cp+3][cp], h.Buf[:cp+3][cp+1], h.Buf[:cp+3][cp+2]}
	listing := vp.Choose("listing", 2) == 1
	h.E = asm.NewEmitter(h.Buf, listing)
	h.Dry = asm.NewEmitter(nil, listing)
	fl := asm.Flags(vp.U8("tracked-flags"))
	h.E.AssumeSEP(fl)
	h.Dry.AssumeSEP(fl)
	// 0: no base; 1: base set before anything is emitted; 2: base set again behind the prefix
	setbase := vp.Choose("setbase", 3)
	if setbase >= 1 {
		base := vp.U32("base")
		vp.Assume(base < 1<<24 && base&0xFFFF <= 0xFF00)
		h.E.SetBase(base)
		h.Dry.SetBase(base)
	}
	pb := make([]byte, pre)
	for i := range pb {
		pb[i] = vp.U8("p" + string(rune('0'+i)))
	}
	h.E.EmitBytes(pb)
	h.Dry.EmitBytes(pb)
	if setbase == 2 {
		base2 := vp.U32("base2")
		vp.Assume(base2 < 1<<24 && base2&0xFFFF <= 0xFF00)
		h.E.SetBase(base2)
		h.Dry.SetBase(base2)
	}
	h.E.Label("L0")
	h.Dry.Label("L0")
	h.n0, h.pc0 = h.E.Len(), h.E.PC()
	h.before = make([]byte, h.n0)
	copy(h.before, h.E.Bytes())
	h.lab0, h.labOK0 = h.E.GetLabel("L0")
	return h
}

// Check: refusedReal/refusedDry are the panic outcomes of the same call on both emitters; L is the
// instruction (or data) length, guardRefuse whether a width guard (not capacity) refuses the call.
func (h *H19) Check(refusedReal, refusedDry bool, L int, guardRefuse bool) {
	fits := h.Pre+L <= h.Cap
	if guardRefuse {
		vp.Assert("width-guard-refuses-both", refusedReal && refusedDry)
	} else {
		vp.Assert("refused-exactly-when-it-does-not-fit", refusedReal == !fits)
		vp.Assert("dry-run-emitter-accepts", !refusedDry)
	}
	e := h.E
	vp.Assert("len-never-exceeds-capacity", e.Len() <= e.Cap() && e.Cap() == h.Cap)
	full := h.Buf[:h.Cap+3]
	vp.Assert("nothing-written-behind-the-target-window", full[h.Cap] == h.tail[0] && full[h.Cap+1] == h.tail[1] && full[h.Cap+2] == h.tail[2])
	if refusedReal {
		vp.Assert("refused-len-unchanged", e.Len() == h.n0)
		vp.Assert("refused-pc-unchanged", e.PC() == h.pc0)
		same := len(e.Bytes()) == h.n0
		if same {
			for i := 0; i < h.n0; i++ {
				if e.Bytes()[i] != h.before[i] {
					same = false
				}
			}
		}
		vp.Assert("refused-bytes-unchanged", same)
		l, ok := e.GetLabel("L0")
		vp.Assert("refused-labels-unchanged", ok == h.labOK0 && l == h.lab0)
		_, ok2 := e.GetLabel("L1")
		vp.Assert("refused-defines-no-label", !ok2)
		// nothing of the refused call is left behind: the program (a prefix and a label, no
		// references) still finalizes, and finalizing touches nothing
		var ferr error
		ffail := vp.Try(func() { ferr = e.Finalize() })
		vp.Assert("refused-call-leaves-no-reference-behind", !ffail && ferr == nil)
		same = len(e.Bytes()) == h.n0
		if same {
			for i := 0; i < h.n0; i++ {
				if e.Bytes()[i] != h.before[i] {
					same = false
				}
			}
		}
		vp.Assert("refused-bytes-unchanged", same)
		vp.Assert("nothing-written-behind-the-target-window", full[h.Cap] == h.tail[0] && full[h.Cap+1] == h.tail[1] && full[h.Cap+2] == h.tail[2])
		vp.Reach("refused")
		return
	}
	vp.Assert("dry-run-pc-equals-real-pc", h.Dry.PC() == e.PC())
	vp.Assert("dry-run-flags-equal-real-flags", h.Dry.Flags() == e.Flags())
	l1, ok1 := e.GetLabel("L0")
	l2, ok2 := h.Dry.GetLabel("L0")
	vp.Assert("dry-run-labels-equal-real-labels", ok1 == ok2 && l1 == l2)
	vp.Reach("accepted")
}
