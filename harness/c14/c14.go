// Package c14: execution tracing is truthful and does not perturb execution (C14).
package c14

import (
	"github.com/alttpo/snes/emulator"
	"github.com/alttpo/snes/emulator/memory"

	"verif/harness/cpuenv"
	"verif/spec/w65816"
	"verif/vp"
)

// sys2 is a second System over SpecMem (for with/without-logger comparisons).
var sys2 = func() *emulator.System {
	s := &emulator.System{}
	if err := s.Bus.Attach(memory.NewRAM(cpuenv.SpecMem, 0), "ram", 0x000000, 0xFFFFFF); err != nil {
		panic(err)
	}
	s.CPU.Init(&s.Bus)
	return s
}()

type sink struct {
	b        []byte
	reserved int
	commits  int
}

// Reserve and Commit make the sink a Reserver/Committer, as the emulator's trace consumers are.
// Like bytes.Buffer.Grow, a negative request is a programming error of the caller.
func (s *sink) Reserve(n int) {
	if n < 0 {
		panic("sink: negative Reserve")
	}
	s.reserved += n
}
func (s *sink) Commit() { s.commits++ }

func (s *sink) Write(p []byte) (int, error) {
	s.b = append(s.b, p...)
	return len(p), nil
}

const hexdigits = "0123456789abcdef"

func hx(n uint8) byte { return hexdigits[n&0xF] }

// find returns the first index in [i,end) where pat occurs among concrete bytes, or -1.
func find(out []byte, i, end int, pat string) int {
	for ; i+len(pat) <= end; i++ {
		ok := true
		for k := 0; k < len(pat); k++ {
			if !vp.IsConcrete(out[i+k]) || out[i+k] != pat[k] {
				ok = false
				break
			}
		}
		if ok {
			return i
		}
	}
	return -1
}

func isHexChar(c byte) bool { return (c >= '0' && c <= '9') || (c >= 'a' && c <= 'f') }

// nextDigits returns the index of the first character at or after i that can be a hex digit
// (symbolic, or a concrete hex character), skipping concrete punctuation.
func nextDigits(out []byte, i, end int) int {
	for i < end && vp.IsConcrete(out[i]) && !isHexChar(out[i]) {
		i++
	}
	return i
}

func hexAt(out []byte, i int, v uint8) bool { return out[i] == hx(v>>4) && out[i+1] == hx(v) }

func hex16At(out []byte, i int, v uint16) bool {
	return hexAt(out, i, uint8(v>>8)) && hexAt(out, i+2, uint8(v))
}

var alias = map[string]string{"jml": "jmp"}

// bytesShown: the byte field [f,b1) holds exactly the n instruction bytes as two hex digits each,
// separated by single blanks, and nothing but blanks after them. (Early returns, no flags carried
// across loops: values merged from different exits would make positions symbolic.)
func bytesShown(out []byte, f, b1, n int, ws [4]uint8) bool {
	k := f
	for i := 0; i < n; i++ {
		if k+2 > b1 || !hexAt(out, k, ws[i]) {
			return false
		}
		k += 2
		if i+1 < n {
			if k < b1 && out[k] == ' ' {
				k++
			} else {
				return false
			}
		}
	}
	for ; k < b1; k++ {
		if !vp.IsConcrete(out[k]) || out[k] != ' ' {
			return false // more bytes shown than the instruction occupies
		}
	}
	return true
}

// Line: the trace line for opcode op with widths m,x on interpreter cpu describes the instruction
// about to execute, and producing it changes neither the CPU nor memory.
func Line(cpu int, op int, m int, x int) {
	pre := cpuenv.ArbitraryPre(uint8(m), uint8(x), 0)
	pre.Interrupt &= 1
	pre.Cycles = 7 // a one-digit cycle count keeps the line layout fixed (the count itself is C12's subject)
	pre.EA &= 0xFFFFFF
	bank := uint32(pre.RK) << 16
	opAddr := bank | uint32(pre.PC)
	vp.FillBytes("mem", cpuenv.SpecMem)
	cpuenv.SpecMem[opAddr] = uint8(op)
	w1 := cpuenv.SpecMem[bank|uint32(pre.PC+1)]
	w2 := cpuenv.SpecMem[bank|uint32(pre.PC+2)]
	w3 := cpuenv.SpecMem[bank|uint32(pre.PC+3)]
	var out []byte
	var failed bool
	var post cpuenv.Pre
	var sepBytes, sepName string // separators around the byte field
	if cpu == 0 {
		vp.FillBytes("mem", cpuenv.MainMem)
		cpuenv.MainMem[opAddr] = uint8(op)
		c := cpuenv.Main
		pre.ToMain(c)
		// the same instruction was traced a moment ago with other operand bytes (a host patched the
		// operand in between): what the tracer remembers of that must not show up in this line
		a1, a2, a3 := bank|uint32(pre.PC+1), bank|uint32(pre.PC+2), bank|uint32(pre.PC+3)
		vp.Assume(a1 != opAddr && a2 != opAddr && a3 != opAddr)
		cpuenv.MainMem[a1], cpuenv.MainMem[a2], cpuenv.MainMem[a3] = vp.U8("stale1"), vp.U8("stale2"), vp.U8("stale3")
		vp.Try(func() { c.DisassembleCurrentPC(nil) })
		cpuenv.MainMem[a1], cpuenv.MainMem[a2], cpuenv.MainMem[a3] = w1, w2, w3
		pre.ToMain(c)
		failed = vp.Try(func() { out = c.DisassembleCurrentPC(nil) })
		post = cpuenv.FromMain(c)
		post.BusM = pre.BusM // cpu65c816 has no such field
		vp.Assert("tracing-leaves-memory-unchanged", vp.BytesEqual(cpuenv.MainMem, cpuenv.SpecMem))
		sepBytes, sepName = "|", "|"
	} else {
		vp.FillBytes("mem", cpuenv.AltMem)
		cpuenv.AltMem[opAddr] = uint8(op)
		c := cpuenv.Alt
		pre.ToAlt(c)
		if cpu == 2 {
			// the string-returning disassembler (cycles, address, bytes, mnemonic, operand; no registers)
			failed = vp.Try(func() { out = []byte(c.Disassemble(c.PC)) })
		} else {
			s := &sink{}
			failed = vp.Try(func() { c.DisassembleCurrentPC(s) })
			out = s.b
		}
		post = cpuenv.FromAlt(c)
		post.BusM = pre.BusM // the open-bus latch is not architectural state on a fully mapped bus
		vp.Assert("tracing-leaves-memory-unchanged", vp.BytesEqual(cpuenv.AltMem, cpuenv.SpecMem))
		sepBytes, sepName = "\xe2\x94\x82", "\xe2\x94\x82"
	}
	vp.Assert("tracing-completes", !failed)
	if failed {
		return
	}
	vp.Assert("tracing-leaves-the-cpu-unchanged", post == pre)
	if vp.Conformance() {
		vp.ObserveBytes("line", out) // conformance runs compare the rendered line itself
	}

	e := w65816.Table[op]
	n := w65816.Len(uint8(op), m == 1, x == 1)
	end := len(out)
	// ---- address "KK:PPPP" directly in front of the byte field
	b0 := find(out, 0, end, sepBytes)
	okAddr := b0 >= 7 && out[b0-5] == ':' && hexAt(out, b0-7, pre.RK) && hex16At(out, b0-4, pre.PC)
	vp.Assert("line-shows-bank-and-address", okAddr)
	if b0 < 0 {
		return
	}
	f := b0 + len(sepBytes) // start of the byte field
	b1 := find(out, f, end, sepName)
	vp.Assert("line-has-a-byte-field", b1 > f)
	if b1 < 0 {
		return
	}
	// ---- exactly the n instruction bytes, then blanks
	ws := [4]uint8{uint8(op), w1, w2, w3}
	vp.Assert("line-shows-exactly-the-instruction-bytes", bytesShown(out, f, b1, n, ws))
	// ---- mnemonic
	g := b1 + len(sepName)
	name := w65816.MnNames[e.Mn]
	if a, ok := alias[name]; ok {
		name = a
	}
	okName := g+3 <= end && out[g] == name[0] && out[g+1] == name[1] && out[g+2] == name[2]
	vp.Assert("line-shows-the-mnemonic", okName)
	// ---- operand
	o := g + 3
	oEnd := end
	if cpu == 0 {
		if j := find(out, o, end, "|"); j >= 0 {
			oEnd = j
		}
	}
	if cpu == 2 {
		if j := find(out, o, end, sepName); j >= 0 {
			oEnd = j
		}
	}
	d1 := find(out, o, oEnd, "$")
	okOperand := true
	target8 := pre.PC + 2 + uint16(int16(int8(w1)))
	target16 := pre.PC + 3 + (uint16(w2)<<8 | uint16(w1))
	switch {
	case e.Mn == w65816.BRK:
		// the signature byte is not an operand in assembler syntax; showing it or not is both fine
		okOperand = true
	}
	switch e.Mode {
	case w65816.Imp, w65816.Acc:
		okOperand = d1 < 0
	case w65816.Rel8:
		i := -1
		if d1 >= 0 {
			i = nextDigits(out, d1+1, oEnd)
		}
		j := -1
		if i >= 0 {
			j = find(out, i, oEnd, "($")
		}
		okOperand = i >= 0 && i+2 <= oEnd && hexAt(out, i, w1) && j >= 0 && j+6 <= oEnd && hex16At(out, j+2, target8)
		vp.Tag("branch_backward", w1 >= 0x80)
	case w65816.Rel16:
		i := -1
		if d1 >= 0 {
			i = nextDigits(out, d1+1, oEnd)
		}
		okOperand = i >= 0 && i+4 <= oEnd && hex16At(out, i, target16)
	case w65816.Block:
		i := -1
		if d1 >= 0 {
			i = nextDigits(out, d1+1, oEnd)
		}
		d2 := -1
		if i >= 0 {
			d2 = find(out, i+2, oEnd, "$")
		}
		okOperand = i >= 0 && i+2 <= oEnd && d2 >= 0 && d2+3 <= oEnd && hexAt(out, i, w2) && hexAt(out, nextDigits(out, d2+1, oEnd), w1)
	default:
		if e.Mn == w65816.BRK {
			break
		}
		i := -1
		if d1 >= 0 {
			i = nextDigits(out, d1+1, oEnd)
		}
		nb := n - 1
		if i < 0 || i+2*nb > oEnd {
			okOperand = false
		} else {
			for q := 0; q < nb; q++ { // high byte first
				if !hexAt(out, i+2*q, ws[nb-q]) {
					okOperand = false
				}
			}
			// no further operand digits follow
			if i+2*nb < oEnd && !vp.IsConcrete(out[i+2*nb]) {
				okOperand = false
			}
		}
	}
	vp.Assert("line-shows-the-operand", okOperand)
	if cpu == 2 {
		vp.Reach("end")
		return
	}
	// ---- registers and flags as the instruction will see them
	a := find(out, 0, end, "A=")
	okRegs := a >= 0
	if okRegs {
		if m == 1 {
			okRegs = a+6 <= end && out[a+2] == '-' && out[a+3] == '-' && hexAt(out, a+4, pre.RAl)
		} else {
			okRegs = a+6 <= end && hex16At(out, a+2, pre.RA)
		}
	}
	xi, yi := find(out, 0, end, "X="), find(out, 0, end, "Y=")
	if okRegs && xi >= 0 && yi >= 0 && xi+6 <= end && yi+6 <= end {
		if x == 1 {
			okRegs = out[xi+2] == '-' && out[xi+3] == '-' && hexAt(out, xi+4, pre.RXl) && out[yi+2] == '-' && out[yi+3] == '-' && hexAt(out, yi+4, pre.RYl)
		} else {
			okRegs = hex16At(out, xi+2, pre.RX) && hex16At(out, yi+2, pre.RY)
		}
	} else {
		okRegs = false
	}
	vp.Assert("line-shows-the-registers-in-their-current-widths", okRegs)
	// eight flag letters (either case) in NVMXDIZC order, '-' when clear
	fl := [8]uint8{pre.N, pre.V, pre.M, pre.X, pre.D, pre.I, pre.Z, pre.C}
	letters := "NVMXDIZC"
	if cpu == 1 {
		letters = "nvmxdizc"
	}
	okFlags := false
	fstart := yi + 6
	if cpu == 1 {
		if s := find(out, 0, end, "S="); s >= 0 {
			fstart = s + 6
		}
	}
	if yi >= 0 && fstart+9 <= end && out[fstart] == ' ' {
		okFlags = true
		for q := 0; q < 8; q++ {
			c := out[fstart+1+q]
			if fl[q] == 1 && c != letters[q] {
				okFlags = false
			}
			if fl[q] == 0 && c != '-' {
				okFlags = false
			}
		}
	}
	vp.Assert("line-shows-the-flags", okFlags)
	vp.Reach("end")
}

// alphabet of the traced programs (m=x=1); 0xF0/0xF1 = low/high byte of the program start
var alphabet = [][]uint8{
	{0xEA},             // NOP
	{0xE8},             // INX
	{0xA9, 0x5A},       // LDA #$5A
	{0x8D, 0x00, 0x21}, // STA $2100 (memory write)
	{0xDB},             // STP
	{0x4C, 0xF0, 0xF1}, // JMP start
	{0x48},             // PHA (stack write)
	{0x80, 0xFE},       // BRA -2 (spin)
}

// LoggerOnOff: running a program with a trace logger attached produces exactly the same final
// registers, flags, cycle totals and memory as running it without one; one line per instruction
// about to execute.
func LoggerOnOff(prog int, k int, maxBudget int) {
	s1, s2 := cpuenv.Sys, sys2
	pre := cpuenv.ArbitraryPre(1, 1, 0)
	pre.Interrupt &= 1
	// the programs store through the data bank and push on the stack (bank 0): keep both away from the
	// program bank so that the program cannot overwrite itself
	pre.RK, pre.RDBR = 0x80, 0x7E
	vp.Note("traced programs run in bank $80 with data bank $7E (stack in bank $00): the program cannot overwrite itself")
	pre.ToMain(&s1.CPU)
	pre.ToMain(&s2.CPU)
	vp.FillBytes("mem", cpuenv.MainMem)
	vp.FillBytes("mem", cpuenv.SpecMem)
	bank := uint32(pre.RK) << 16
	start := pre.PC
	var off uint16
	emit := func(ins []uint8) {
		for _, b := range ins {
			switch b {
			case 0xF0:
				b = uint8(start)
			case 0xF1:
				b = uint8(start >> 8)
			}
			a := bank | uint32(start+off)
			cpuenv.MainMem[a], cpuenv.SpecMem[a] = b, b
			off++
		}
	}
	p := prog
	for i := 0; i < k; i++ {
		emit(alphabet[p%8])
		p /= 8
	}
	emit(alphabet[7])
	target := vp.U32("target")
	budget := vp.U64("budget")
	vp.Assume(target < 1<<24 && budget <= uint64(maxBudget))
	log := &sink{}
	s1.Logger = nil
	s2.Logger = log
	var r1, r2 bool
	f1 := vp.Try(func() { r1 = s1.RunUntil(target, budget) })
	f2 := vp.Try(func() { r2 = s2.RunUntil(target, budget) })
	s2.Logger = nil
	vp.Assert("same-completion", f1 == f2)
	if f1 || f2 {
		return
	}
	vp.Assert("same-result", r1 == r2)
	vp.Assert("same-final-registers-flags-and-cycle-totals", cpuenv.FromMain(&s1.CPU) == cpuenv.FromMain(&s2.CPU))
	vp.Assert("same-final-memory", vp.BytesEqual(cpuenv.MainMem, cpuenv.SpecMem))
	vp.Reach("end")
}

// LoggerLongRun: a spin loop traced through a reserving logger for a symbolic budget of up to
// maxBudget cycles (several hundred), compared with the untraced run. Control flow is concrete (the
// program is BRA -2); only the budget test forks.
func LoggerLongRun(maxBudget int) {
	s1, s2 := cpuenv.Sys, sys2
	pre := cpuenv.ArbitraryPre(1, 1, 0)
	pre.Interrupt &= 1
	pre.Cycles = 3
	pre.RK, pre.RDBR = 0x80, 0x7E
	pre.ToMain(&s1.CPU)
	pre.ToMain(&s2.CPU)
	vp.FillBytes("mem", cpuenv.MainMem)
	vp.FillBytes("mem", cpuenv.SpecMem)
	a := uint32(0x800000) | uint32(pre.PC)
	a1 := uint32(0x800000) | uint32(pre.PC+1)
	cpuenv.MainMem[a], cpuenv.SpecMem[a] = 0x80, 0x80
	cpuenv.MainMem[a1], cpuenv.SpecMem[a1] = 0xFE, 0xFE
	budget := vp.U64("budget")
	vp.Assume(budget <= uint64(maxBudget))
	target := uint32(0x800000) | uint32(pre.PC+2) // never reached
	log := &sink{}
	s1.Logger, s2.Logger = nil, log
	var r1, r2 bool
	f1 := vp.Try(func() { r1 = s1.RunUntil(target, budget) })
	f2 := vp.Try(func() { r2 = s2.RunUntil(target, budget) })
	s2.Logger = nil
	vp.Assert("same-completion", f1 == f2)
	if f1 || f2 {
		return
	}
	vp.Assert("same-result", r1 == r2)
	vp.Assert("same-final-registers-flags-and-cycle-totals", cpuenv.FromMain(&s1.CPU) == cpuenv.FromMain(&s2.CPU))
	vp.Assert("same-final-memory", vp.BytesEqual(cpuenv.MainMem, cpuenv.SpecMem))
	vp.Assert("logger-committed-once", log.commits == 1)
	vp.Reach("end")
}

// LoggerAnyBudget: k NOPs followed by the target, traced through a reserving logger, for *any*
// 64-bit cycle budget (the budget only decides after how many NOPs the run stops; the space the
// logger is asked to reserve is computed from it).
func LoggerAnyBudget(k int) {
	s1, s2 := cpuenv.Sys, sys2
	pre := cpuenv.ArbitraryPre(1, 1, 0)
	pre.Interrupt = 0
	pre.RK, pre.RDBR = 0x80, 0x7E
	vp.Assume(pre.PC < 0xFF00)
	pre.ToMain(&s1.CPU)
	pre.ToMain(&s2.CPU)
	vp.FillBytes("mem", cpuenv.MainMem)
	vp.FillBytes("mem", cpuenv.SpecMem)
	for i := 0; i < k; i++ {
		a := uint32(0x800000) | uint32(pre.PC+uint16(i))
		cpuenv.MainMem[a], cpuenv.SpecMem[a] = 0xEA, 0xEA
	}
	target := uint32(0x800000) | uint32(pre.PC+uint16(k))
	budget := vp.U64("budget")
	log := &sink{}
	s1.Logger, s2.Logger = nil, log
	var r1, r2 bool
	f1 := vp.Try(func() { r1 = s1.RunUntil(target, budget) })
	f2 := vp.Try(func() { r2 = s2.RunUntil(target, budget) })
	s2.Logger = nil
	vp.Assert("same-completion", f1 == f2)
	if f1 || f2 {
		return
	}
	vp.Assert("same-result", r1 == r2)
	vp.Assert("same-final-registers-flags-and-cycle-totals", cpuenv.FromMain(&s1.CPU) == cpuenv.FromMain(&s2.CPU))
	vp.Assert("same-final-memory", vp.BytesEqual(cpuenv.MainMem, cpuenv.SpecMem))
	vp.Assert("logger-committed-once", log.commits == 1)
	vp.Reach("end")
}
