// Package asmh7 is the hand-written part of the C07 harnesses (emitter output run on a CPU).
package asmh7

import (
	"github.com/alttpo/snes/asm"

	"verif/harness/asmh"
	"verif/harness/cpuenv"
	"verif/vp"
)

// ---------------------------------------------------------------- C07

// CPUAfter runs the bytes emitted by one method on a CPU whose widths equal the tracked ones and
// checks that the CPU ends at the emitter's PC with the emitter's tracked widths.
type H struct {
	E    *asm.Emitter
	Buf  []byte
	Base uint32
	CPU  int
}

func New(cpu int) *H {
	h := &H{CPU: cpu}
	h.Buf = make([]byte, 8)
	h.E = asm.NewEmitter(h.Buf, false)
	h.Base = vp.U32("base")
	vp.Assume(h.Base < 1<<24 && h.Base&0xFFFF <= 0xFFF0)
	h.E.SetBase(h.Base)
	h.E.AssumeSEP(asm.Flags(vp.U8("tracked-flags")))
	return h
}

// Exec: pre = tracked flags before the call (captured by the generated code).
func (h *H) Exec(pre asm.Flags, flagIdx int, flagVal uint8, zeroC bool) {
	m, x := uint8(0), uint8(0)
	if pre&asmh.FlagM != 0 {
		m = 1
	}
	if pre&asmh.FlagX != 0 {
		x = 1
	}
	// the CPU's width flags are symbolic in general; here they are tied to the tracker (the invariant)
	p := cpuenv.ArbitraryPre(0, 0, 0)
	p.M, p.X = m, x
	p.Interrupt &= 1
	p.RK, p.PC = uint8(h.Base>>16), uint16(h.Base)
	switch flagIdx {
	case 0:
		p.N = flagVal
	case 1:
		p.V = flagVal
	case 6:
		p.Z = flagVal
	case 7:
		p.C = flagVal
	}
	if zeroC {
		p.RA, p.RAh, p.RAl = 0, 0, 0
	}
	code := h.E.Bytes()
	var gotPC uint32
	var gm, gx uint8
	var panicked bool
	if h.CPU == 0 {
		vp.FillBytes("mem", cpuenv.MainMem)
		for i, b := range code {
			cpuenv.MainMem[(h.Base&0xFF0000)|uint32(uint16(h.Base)+uint16(i))] = b
		}
		c := cpuenv.Main
		p.ToMain(c)
		panicked = vp.Try(func() { c.Step() })
		gotPC, gm, gx = uint32(c.RK)<<16|uint32(c.PC), c.M, c.X
	} else {
		vp.FillBytes("mem", cpuenv.AltMem)
		for i, b := range code {
			cpuenv.AltMem[(h.Base&0xFF0000)|uint32(uint16(h.Base)+uint16(i))] = b
		}
		c := cpuenv.Alt
		p.ToAlt(c)
		panicked = vp.Try(func() { c.Step() })
		gotPC, gm, gx = uint32(c.RK)<<16|uint32(c.PC), c.M, c.X
	}
	vp.Assume(!panicked)
	post := h.E.Flags()
	tm, tx := uint8(0), uint8(0)
	if post&asmh.FlagM != 0 {
		tm = 1
	}
	if post&asmh.FlagX != 0 {
		tx = 1
	}
	vp.Assert("cpu-next-fetch-is-at-the-emitters-pc", gotPC == h.E.PC())
	vp.Assert("cpu-m-flag-equals-tracked-width", gm == tm)
	vp.Assert("cpu-x-flag-equals-tracked-width", gx == tx)
	vp.Reach("executed")
}

// CloneAppendLemma: the two non-emitting operations of piecewise assembly keep the C07 invariant
// (Emitter.PC() and tracked widths describe the CPU after the bytes emitted so far). A Clone starts
// where its parent stands; after Append the parent stands where the clone stood, and the clone's
// bytes follow the parent's own. The clone changes widths (SEP or REP with a symbolic mask) and
// emits an instruction in between, so a parent that kept its old widths would be noticed.
func CloneAppendLemma(rep int) {
	buf := make([]byte, 12)
	e := asm.NewEmitter(buf, false)
	base := vp.U32("base")
	vp.Assume(base < 1<<24 && base&0xFFFF <= 0xFFE0)
	e.SetBase(base)
	e.AssumeSEP(asm.Flags(vp.U8("tracked-flags")))
	e.EmitBytes([]byte{vp.U8("d0"), vp.U8("d1")})
	c := e.Clone(make([]byte, 8))
	vp.Assert("clone-starts-at-the-parents-pc", c.PC() == e.PC())
	vp.Assert("clone-starts-with-the-parents-tracked-widths", c.Flags() == e.Flags())
	f := asm.Flags(vp.U8("mask"))
	if rep == 1 {
		c.REP(f)
	} else {
		c.SEP(f)
	}
	c.LDA_abs(vp.U16("w"))
	n0 := e.Len()
	own := [2]byte{e.Bytes()[0], e.Bytes()[1]}
	cpc, cfl := c.PC(), c.Flags() // where the clone stands before it is appended
	e.Append(c)
	vp.Assert("append-continues-at-the-clones-pc", e.PC() == cpc)
	vp.Assert("append-continues-with-the-clones-tracked-widths", e.Flags() == cfl)
	out := e.Bytes()
	ok := len(out) == n0+c.Len() && out[0] == own[0] && out[1] == own[1]
	if ok {
		for i, b := range c.Bytes() {
			if out[n0+i] != b {
				ok = false
			}
		}
	}
	vp.Assert("appended-bytes-follow-the-parents-own", ok)
	vp.Reach("end")
}
