// Package c10: ROM bus readers/writers stay inside the addressed bank and obey io contracts (C10).
package c10

import (
	"io"

	snes "github.com/alttpo/snes"

	"verif/vp"
)

func setup(banks int) (*snes.ROM, []byte, uint32, uint32, uint32) {
	size := banks * 0x8000
	contents := vp.Bytes("rom", size)
	shadow := vp.Bytes("rom", size) // same symbolic contents: the harness' own copy
	r := &snes.ROM{Name: "x", Contents: contents}
	addr := vp.U32("bus-address")
	vp.Assume(addr < 1<<24)
	bank, page := addr>>16, addr&0xFFFF
	vp.Assume(bank < uint32(banks)) // the bank lies inside the image
	_ = page
	return r, shadow, addr, bank, page
}

// LowHalf: for offsets below $8000 every read and write fails with unexpected EOF and changes nothing.
func LowHalf(banks int, n int) {
	r, shadow, addr, _, page := setup(banks)
	vp.Assume(page < 0x8000)
	p := vp.Bytes("p", n)
	q := make([]byte, n)
	copy(q, p)
	rd, wr := r.BusReader(addr), r.BusWriter(addr)
	k, err := rd.Read(p)
	vp.Assert("low-half-read-fails-with-unexpected-eof", k == 0 && err == io.ErrUnexpectedEOF)
	vp.Assert("low-half-read-leaves-the-buffer-alone", vp.BytesEqual(p, q))
	k, err = wr.Write(p)
	vp.Assert("low-half-write-fails-with-unexpected-eof", k == 0 && err == io.ErrUnexpectedEOF)
	vp.Assert("low-half-changes-nothing", vp.BytesEqual(r.Contents, shadow))
	vp.Reach("end")
}

// Reads: a reader at a ROM-half address yields exactly the image bytes from the address's LoROM
// file offset up to the end of that 32 KiB bank, then EOF. l1..l3 are the lengths of three reads.
func Reads(banks int, l1, l2, l3 int) {
	r, shadow, addr, bank, page := setup(banks)
	vp.Assume(page >= 0x8000)
	off := bank<<15 | (page - 0x8000)
	end := (bank + 1) << 15
	rd := r.BusReader(addr)
	pos := off
	touched := false
	for i, l := range [3]int{l1, l2, l3} {
		if l < 0 {
			continue
		}
		remaining := end - pos
		// this read asks for the last byte of the bank (or beyond), or starts on it
		touched = touched || uint32(l) >= remaining || remaining == 1
		vp.Tag("touches_last_byte_of_bank", touched)
		p := vp.Bytes("p"+string(rune('1'+i)), l)
		q := make([]byte, l)
		copy(q, p)
		n, err := rd.Read(p)
		want := uint32(l)
		if remaining < want {
			want = remaining
		}
		if remaining == 0 && l > 0 {
			vp.Assert("reader-reports-eof-at-the-end-of-the-bank", n == 0 && err == io.EOF)
		} else {
			vp.Assert("reader-delivers-up-to-the-end-of-the-bank", uint32(n) == want && err == nil)
		}
		vp.Assert("reader-count-within-request", n >= 0 && n <= l)
		okData, okRest := true, true
		for k := 0; k < l; k++ {
			if k < n {
				if p[k] != shadow[pos+uint32(k)] {
					okData = false
				}
			} else if p[k] != q[k] {
				okRest = false
			}
		}
		vp.Assert("reader-delivers-the-image-bytes-in-order", okData)
		vp.Assert("reader-leaves-the-rest-of-the-buffer-alone", okRest)
		vp.Assert("reader-never-passes-the-end-of-the-bank", pos+uint32(n) <= end)
		pos += uint32(n)
	}
	vp.Assert("reading-changes-nothing", vp.BytesEqual(r.Contents, shadow))
	vp.Reach("end")
}

// Writes: successive writes land contiguously from the offset; a write stores all its bytes or
// reports an error; nothing outside the window changes; a reader sees what was written.
func Writes(banks int, l1, l2, l3 int) {
	r, shadow, addr, bank, page := setup(banks)
	vp.Assume(page >= 0x8000)
	off := bank<<15 | (page - 0x8000)
	end := (bank + 1) << 15
	wr := r.BusWriter(addr)
	pos := off
	touched := false
	var first []byte
	for i, l := range [3]int{l1, l2, l3} {
		if l < 0 {
			continue
		}
		remaining := end - pos
		touched = touched || uint32(l) >= remaining || remaining == 1
		vp.Tag("touches_last_byte_of_bank", touched)
		p := vp.Bytes("w"+string(rune('1'+i)), l)
		n, err := wr.Write(p)
		vp.Assert("write-is-complete-or-reports-an-error", err != nil || n == l)
		vp.Assert("write-count-within-request", n >= 0 && n <= l)
		if uint32(l) <= remaining {
			vp.Assert("write-that-fits-the-bank-is-accepted", err == nil && n == l)
		} else {
			vp.Assert("write-beyond-the-bank-is-refused", err != nil)
		}
		if err == nil {
			// the harness' copy receives the same bytes at the position the contract prescribes
			for k := 0; k < n; k++ {
				shadow[pos+uint32(k)] = p[k]
			}
			if first == nil && n == l {
				first = p
			}
			pos += uint32(n)
		} else {
			vp.Assert("failed-write-stores-nothing", vp.BytesEqual(r.Contents, shadow))
		}
	}
	vp.Assert("writes-land-contiguously-and-only-inside-the-window", vp.BytesEqual(r.Contents, shadow))
	if len(first) > 0 {
		back := make([]byte, len(first))
		n, err := r.BusReader(addr).Read(back)
		vp.Assert("reader-returns-what-the-writer-stored", err == nil && n == len(first) && vp.BytesEqual(back, first))
	}
	vp.Reach("end")
}

// Handles: several readers and writers obtained from one ROM are independent streams. Two readers
// (then two writers) at two arbitrary ROM-half addresses are used alternately; each continues from
// where *it* stopped, whatever was done through the other. Both windows are assumed to hold at
// least one byte more than is asked of them (the bank's last byte is the subject of a known finding).
func Handles(banks int, la, lb int) {
	r, shadow, addr, bank, page := setup(banks)
	vp.Assume(page >= 0x8000)
	addr2 := vp.U32("bus-address-2")
	vp.Assume(addr2 < 1<<24)
	bank2, page2 := addr2>>16, addr2&0xFFFF
	vp.Assume(bank2 < uint32(banks) && page2 >= 0x8000)
	offA, endA := bank<<15|(page-0x8000), (bank+1)<<15
	offB, endB := bank2<<15|(page2-0x8000), (bank2+1)<<15
	vp.Assume(endA-offA > uint32(2*la)+1)
	vp.Assume(endB-offB > uint32(2*lb)+1)
	ra, rb := r.BusReader(addr), r.BusReader(addr2)
	okN, okData := true, true
	posA, posB := offA, offB
	for round := 0; round < 2; round++ {
		pa, pb := make([]byte, la), make([]byte, lb)
		n, err := ra.Read(pa)
		if n != la || (err != nil && la > 0) {
			okN = false
		}
		for k := 0; k < la; k++ {
			if pa[k] != shadow[posA+uint32(k)] {
				okData = false
			}
		}
		posA += uint32(la)
		n, err = rb.Read(pb)
		if n != lb || (err != nil && lb > 0) {
			okN = false
		}
		for k := 0; k < lb; k++ {
			if pb[k] != shadow[posB+uint32(k)] {
				okData = false
			}
		}
		posB += uint32(lb)
	}
	vp.Assert("interleaved-readers-each-deliver-the-requested-count", okN)
	vp.Assert("interleaved-readers-each-continue-their-own-stream", okData)
	wa, wb := r.BusWriter(addr), r.BusWriter(addr2)
	posA, posB = offA, offB
	okW := true
	for round := 0; round < 2; round++ {
		xa := vp.Bytes("xa"+string(rune('1'+round)), la)
		xb := vp.Bytes("xb"+string(rune('1'+round)), lb)
		n, err := wa.Write(xa)
		if n != la || err != nil {
			okW = false
		}
		for k := 0; k < la; k++ {
			shadow[posA+uint32(k)] = xa[k]
		}
		posA += uint32(la)
		n, err = wb.Write(xb)
		if n != lb || err != nil {
			okW = false
		}
		for k := 0; k < lb; k++ {
			shadow[posB+uint32(k)] = xb[k]
		}
		posB += uint32(lb)
	}
	vp.Assert("interleaved-writers-each-accept-what-fits", okW)
	vp.Assert("interleaved-writers-each-continue-their-own-stream", vp.BytesEqual(r.Contents, shadow))
	vp.Reach("end")
}

// Huge: a single write whose length does not fit 16 bits (64 KiB + extra) into a window of at most
// 192 bytes: it cannot fit, so it is refused as a whole - an error, nothing stored. (Lengths are
// compared in full width, not in their low 16 bits.)
func Huge(banks int, extra int) {
	r, shadow, addr, _, page := setup(banks)
	vp.Assume(page >= 0xFF40)
	p := make([]byte, 0x10000+extra)
	p[0], p[1] = vp.U8("first"), vp.U8("second")
	wr := r.BusWriter(addr)
	n, err := wr.Write(p)
	vp.Assert("write-is-complete-or-reports-an-error", err != nil || n == len(p))
	vp.Assert("write-beyond-the-bank-is-refused", err != nil)
	vp.Assert("failed-write-stores-nothing", err == nil || vp.BytesEqual(r.Contents, shadow))
	vp.Reach("end")
}
