// Package c09: ROM header parse/write round-trips and fields sit at their documented offsets (C09).
package c09

import (
	"bytes"
	"io"

	snes "github.com/alttpo/snes"

	"verif/vp"
)

const hdr = 0x7FB0 // file offset of $00:FFB0 in a LoROM image

func le16(c []byte, off int) uint16 { return uint16(c[hdr+off]) | uint16(c[hdr+off+1])<<8 }
func le32(c []byte, off int) uint32 {
	return uint32(c[hdr+off]) | uint32(c[hdr+off+1])<<8 | uint32(c[hdr+off+2])<<16 | uint32(c[hdr+off+3])<<24
}

// TooSmall: images shorter than 32 KiB are rejected.
func TooSmall(size int) {
	_, err := snes.NewROM("x", vp.Bytes("rom", size))
	vp.Assert("image-below-32KiB-rejected", err != nil)
	vp.Reach("end")
}

// RoundTrip: ReadHeader; WriteHeader leaves the image byte-for-byte unchanged, whatever the version;
// fields sit at their documented addresses; the version rule holds.
func RoundTrip(size int) {
	contents := vp.Bytes("rom", size)
	shadow := vp.Bytes("rom", size)
	r, err := snes.NewROM("x", contents)
	vp.Assert("header-parses", err == nil && r != nil)
	if err != nil {
		return
	}
	h := &r.Header
	c := shadow
	// ---- version rule
	want := 1
	if c[hdr+0x2A] == 0x33 {
		want = 3
	} else if c[hdr+0x10+20] == 0 {
		want = 2
	}
	vp.Assert("version-rule", h.HeaderVersion() == want)
	vp.Tag("version1", want == 1)
	// ---- field placement (SNES development manual, $FFB0-$FFFF), little endian
	ext := want != 1
	vp.Assert("MakerCode@FFB0", (ext && h.MakerCode == le16(c, 0x00)) || (!ext && h.MakerCode == 0))
	vp.Assert("GameCode@FFB2", (ext && h.GameCode == le32(c, 0x02)) || (!ext && h.GameCode == 0))
	okFixed := true
	for i := 0; i < 6; i++ {
		if (ext && h.Fixed1[i] != c[hdr+0x06+i]) || (!ext && h.Fixed1[i] != 0) {
			okFixed = false
		}
	}
	vp.Assert("Fixed1@FFB6", okFixed)
	vp.Assert("FlashSize@FFBC", (ext && h.FlashSize == c[hdr+0x0C]) || (!ext && h.FlashSize == 0))
	vp.Assert("ExpansionRAMSize@FFBD", (ext && h.ExpansionRAMSize == c[hdr+0x0D]) || (!ext && h.ExpansionRAMSize == 0))
	vp.Assert("SpecialVersion@FFBE", (ext && h.SpecialVersion == c[hdr+0x0E]) || (!ext && h.SpecialVersion == 0))
	vp.Assert("CoCPUType@FFBF", (ext && h.CoCPUType == c[hdr+0x0F]) || (!ext && h.CoCPUType == 0))
	okTitle := true
	for i := 0; i < 21; i++ {
		if h.Title[i] != c[hdr+0x10+i] {
			okTitle = false
		}
	}
	vp.Assert("Title@FFC0", okTitle)
	vp.Assert("MapMode@FFD5", h.MapMode == c[hdr+0x25])
	vp.Assert("CartridgeType@FFD6", h.CartridgeType == c[hdr+0x26])
	vp.Assert("ROMSize@FFD7", h.ROMSize == c[hdr+0x27])
	vp.Assert("RAMSize@FFD8", h.RAMSize == c[hdr+0x28])
	vp.Assert("DestinationCode@FFD9", uint8(h.DestinationCode) == c[hdr+0x29])
	vp.Assert("OldMakerCode@FFDA", h.OldMakerCode == c[hdr+0x2A])
	vp.Assert("MaskROMVersion@FFDB", h.MaskROMVersion == c[hdr+0x2B])
	vp.Assert("ComplementCheckSum@FFDC", h.ComplementCheckSum == le16(c, 0x2C))
	vp.Assert("CheckSum@FFDE", h.CheckSum == le16(c, 0x2E))
	nv := &h.NativeVectors
	vp.Assert("NativeVectors.Unused1@FFE0", nv.Unused1[0] == c[hdr+0x30] && nv.Unused1[1] == c[hdr+0x31] && nv.Unused1[2] == c[hdr+0x32] && nv.Unused1[3] == c[hdr+0x33])
	vp.Assert("NativeVectors.COP@FFE4", nv.COP == le16(c, 0x34))
	vp.Assert("NativeVectors.BRK@FFE6", nv.BRK == le16(c, 0x36))
	vp.Assert("NativeVectors.ABORT@FFE8", nv.ABORT == le16(c, 0x38))
	vp.Assert("NativeVectors.NMI@FFEA", nv.NMI == le16(c, 0x3A))
	vp.Assert("NativeVectors.Unused2@FFEC", nv.Unused2 == le16(c, 0x3C))
	vp.Assert("NativeVectors.IRQ@FFEE", nv.IRQ == le16(c, 0x3E))
	ev := &h.EmulatedVectors
	vp.Assert("EmulatedVectors.Unused1@FFF0", ev.Unused1[0] == c[hdr+0x40] && ev.Unused1[1] == c[hdr+0x41] && ev.Unused1[2] == c[hdr+0x42] && ev.Unused1[3] == c[hdr+0x43])
	vp.Assert("EmulatedVectors.COP@FFF4", ev.COP == le16(c, 0x44))
	vp.Assert("EmulatedVectors.Unused2@FFF6", ev.Unused2 == le16(c, 0x46))
	vp.Assert("EmulatedVectors.ABORT@FFF8", ev.ABORT == le16(c, 0x48))
	vp.Assert("EmulatedVectors.NMI@FFFA", ev.NMI == le16(c, 0x4A))
	vp.Assert("EmulatedVectors.RESET@FFFC", ev.RESET == le16(c, 0x4C))
	vp.Assert("EmulatedVectors.IRQBRK@FFFE", ev.IRQBRK == le16(c, 0x4E))

	// ---- serialising a parsed header yields 80 bytes that parse back to an identical header
	var b bytes.Buffer
	werr := h.WriteHeader(&b)
	vp.Assert("serialised-header-is-80-bytes", werr == nil && b.Len() == 80)
	if werr == nil && b.Len() == 80 {
		var h2 snes.Header
		rerr := h2.ReadHeader(bytes.NewReader(b.Bytes()))
		vp.Assert("serialised-header-parses", rerr == nil)
		vp.Assert("reparsed-header-is-identical", rerr != nil || h2 == *h)
	}

	// ---- read + write back leaves the image unchanged
	err = r.WriteHeader()
	vp.Assert("write-back-succeeds", err == nil)
	vp.Assert("read-then-write-leaves-image-unchanged", vp.BytesEqual(r.Contents, shadow))
	vp.Reach("end")
}

func versionOf(c []byte) int {
	if c[hdr+0x2A] == 0x33 {
		return 3
	}
	if c[hdr+0x10+20] == 0 {
		return 2
	}
	return 1
}

// TwoRounds: one ROM object used over time. After a first read/write-back the 80 header bytes of
// the image are replaced by other arbitrary bytes (as a patcher does), the header is read and written
// back again: the second round, too, leaves the image unchanged and reports the second header.
func TwoRounds(size int) {
	contents := vp.Bytes("rom", size)
	shadow := vp.Bytes("rom", size)
	r, err := snes.NewROM("x", contents)
	vp.Assert("header-parses", err == nil && r != nil)
	if err != nil {
		return
	}
	vp.Assert("write-back-succeeds", r.WriteHeader() == nil)
	vp.Assert("read-then-write-leaves-image-unchanged", vp.BytesEqual(r.Contents, shadow))
	h2 := vp.Bytes("hdr2", 80)
	copy(r.Contents[hdr:hdr+80], h2)
	copy(shadow[hdr:hdr+80], h2)
	vp.Assert("header-parses", r.ReadHeader() == nil)
	vp.Assert("version-rule", r.Header.HeaderVersion() == versionOf(shadow))
	vp.Assert("Title@FFC0", r.Header.Title[0] == shadow[hdr+0x10] && r.Header.Title[20] == shadow[hdr+0x10+20])
	vp.Assert("CheckSum@FFDE", r.Header.CheckSum == le16(shadow, 0x2E))
	vp.Assert("write-back-succeeds", r.WriteHeader() == nil)
	vp.Assert("read-then-write-leaves-image-unchanged", vp.BytesEqual(r.Contents, shadow))
	// and once more without any change in between
	vp.Assert("header-parses", r.ReadHeader() == nil)
	vp.Assert("write-back-succeeds", r.WriteHeader() == nil)
	vp.Assert("read-then-write-leaves-image-unchanged", vp.BytesEqual(r.Contents, shadow))
	vp.Reach("end")
}

// Direct: Header.ReadHeader called by a user with a reader over the whole image positioned at the
// header (the method's documented use: "parses a ROM header starting from FFB0"): it decodes the
// 80 bytes at the reader's position and consumes exactly those.
func Direct(size int) {
	contents := vp.Bytes("rom", size)
	shadow := vp.Bytes("rom", size)
	rd := bytes.NewReader(contents)
	_, serr := rd.Seek(hdr, io.SeekStart)
	vp.Assert("seek-succeeds", serr == nil)
	var h snes.Header
	err := h.ReadHeader(rd)
	vp.Assert("header-parses", err == nil)
	if err != nil {
		return
	}
	c := shadow
	vp.Assert("reader-consumed-exactly-the-80-header-bytes", rd.Len() == size-hdr-80)
	vp.Assert("version-rule", h.HeaderVersion() == versionOf(c))
	ext := versionOf(c) != 1
	vp.Assert("MakerCode@FFB0", (ext && h.MakerCode == le16(c, 0x00)) || (!ext && h.MakerCode == 0))
	vp.Assert("Title@FFC0", h.Title[0] == c[hdr+0x10] && h.Title[20] == c[hdr+0x10+20])
	vp.Assert("MapMode@FFD5", h.MapMode == c[hdr+0x25])
	vp.Assert("CheckSum@FFDE", h.CheckSum == le16(c, 0x2E))
	vp.Assert("NativeVectors.NMI@FFEA", h.NativeVectors.NMI == le16(c, 0x3A))
	vp.Assert("EmulatedVectors.IRQBRK@FFFE", h.EmulatedVectors.IRQBRK == le16(c, 0x4E))
	vp.Reach("end")
}
