// Package c19: data blocks at capacity and dry-run call sequences (C19; per-method jobs are generated).
package c19

import (
	"github.com/alttpo/snes/asm"

	"verif/harness/asmh"
	"verif/vp"
)

// Data: EmitBytes of n symbolic bytes into a buffer of capacity cp holding pre bytes.
func Data(n, cp, pre int) {
	h := asmh.New19(cp, pre)
	d := make([]byte, n)
	for i := range d {
		d[i] = vp.U8("d" + string(rune('a'+i)))
	}
	r1 := vp.Try(func() { h.E.EmitBytes(d) })
	r2 := vp.Try(func() { h.Dry.EmitBytes(d) })
	h.Check(r1, r2, n, false)
	if !r1 {
		out := h.E.Bytes()
		ok := len(out) == pre+n
		if ok {
			for i := 0; i < n; i++ {
				if out[pre+i] != d[i] {
					ok = false
				}
			}
		}
		vp.Assert("data-bytes-stored-in-order", ok)
	}
}

func step(e *asm.Emitter, c int, i int, dry bool) {
	switch c {
	case 0:
		e.NOP()
	case 1:
		e.LDA_abs(vp.U16("w" + string(rune('0'+i))))
	case 2:
		e.SEP(asm.Flags(vp.U8("f" + string(rune('0'+i)))))
	case 3:
		e.Label("L" + string(rune('1'+i)))
	case 4:
		e.BNE("L2")
	case 5:
		e.EmitBytes([]byte{vp.U8("b" + string(rune('0'+i))), 0x55})
	case 6:
		// a piece built in a Clone and appended back (measuring code size piecewise)
		var target []byte
		if !dry {
			target = make([]byte, 8)
		}
		c := e.Clone(target)
		c.REP(asm.Flags(vp.U8("g" + string(rune('0'+i)))))
		c.Label("L" + string(rune('1'+i)))
		c.LDA_abs(vp.U16("v" + string(rune('0'+i))))
		e.Append(c)
	case 7:
		// a new base address in the middle of the stream
		nb := vp.U32("base" + string(rune('0'+i)))
		vp.Assume(nb < 1<<24 && nb&0xFFFF <= 0xFF00)
		e.SetBase(nb)
	}
}

// DrySequence: after every call of a k-call sequence an emitter without a buffer reports the same
// PC, label addresses and tracked flags as one with a (large enough) buffer.
func DrySequence(prog, k int) {
	buf := vp.Bytes("buf", 20)
	listing := vp.Choose("listing", 2) == 1
	real := asm.NewEmitter(buf, listing)
	dry := asm.NewEmitter(nil, listing)
	if vp.Choose("setbase", 2) == 1 {
		base := vp.U32("base")
		vp.Assume(base < 1<<24 && base&0xFFFF <= 0xFF00)
		real.SetBase(base)
		dry.SetBase(base)
	}
	fl := asm.Flags(vp.U8("tracked-flags"))
	real.AssumeREP(fl)
	dry.AssumeREP(fl)
	p := prog
	for i := 0; i < k; i++ {
		c := p % 8
		p /= 8
		r1 := vp.Try(func() { step(real, c, i, false) })
		r2 := vp.Try(func() { step(dry, c, i, true) })
		vp.Assert("same-acceptance", r1 == r2)
		if r1 || r2 {
			vp.Reach("refused")
			return
		}
		vp.Assert("dry-run-pc-equals-real-pc", real.PC() == dry.PC())
		vp.Assert("dry-run-flags-equal-real-flags", real.Flags() == dry.Flags())
		for _, name := range []string{"L1", "L2", "L3", "L4"} {
			a1, ok1 := real.GetLabel(name)
			a2, ok2 := dry.GetLabel(name)
			vp.Assert("dry-run-labels-equal-real-labels", ok1 == ok2 && a1 == a2)
		}
	}
	vp.Assert("dry-run-emits-nothing", dry.Len() == 0)
	vp.Reach("end")
}
