// Package all registers every harness entry point for the native replayer.
package all

import (
	"verif/harness/asmh7"
	"verif/harness/c01"
	"verif/harness/c02"
	"verif/harness/c04"
	"verif/harness/c05"
	"verif/harness/c06"
	"verif/harness/c08"
	"verif/harness/c09"
	"verif/harness/c10"
	"verif/harness/c11"
	"verif/harness/c12"
	"verif/harness/c13"
	"verif/harness/c14"
	"verif/harness/c15"
	"verif/harness/c16"
	"verif/harness/c17"
	"verif/harness/c19"
	"verif/harness/cpuenv"
)

type Entry func(args []int64)

var Registry = map[string]Entry{}

func reg(pkg, fn string, e Entry) { Registry["verif/harness/"+pkg+"."+fn] = e }

func init() {
	reg("c01", "Step", func(a []int64) { c01.Step(int(a[0]), int(a[1]), int(a[2]), int(a[3])) })
	reg("asmh7", "CloneAppendLemma", func(a []int64) { asmh7.CloneAppendLemma(int(a[0])) })
	reg("c02", "Trigger", func(a []int64) { c02.Trigger() })
	reg("c02", "Reset", func(a []int64) { c02.Reset() })
	reg("c02", "Fresh", func(a []int64) { c02.Fresh(int(a[0])) })
	reg("c02", "Copy", func(a []int64) { c02.Copy(int(a[0]), int(a[1])) })
	reg("c01", "Step2", func(a []int64) { c01.Step2(int(a[0]), int(a[1]), int(a[2]), int(a[3]), int(a[4])) })
	reg("c01", "Step3", func(a []int64) { c01.Step3(int(a[0]), int(a[1]), int(a[2]), int(a[3]), int(a[4]), int(a[5])) })
	reg("c02", "Lockstep3", func(a []int64) { c02.Lockstep3(int(a[0]), int(a[1]), int(a[2]), int(a[3])) })
	reg("c02", "Lockstep2", func(a []int64) { c02.Lockstep2(int(a[0]), int(a[1]), int(a[2])) })
	reg("c02", "Lockstep", func(a []int64) { c02.Lockstep(int(a[0]), int(a[1])) })
	reg("c06", "Program", func(a []int64) { c06.Program(a[0], int(a[1]), int(a[2]), int(a[3])) })
	reg("c08", "Step", func(a []int64) { c08.Step(int(a[0]), int(a[1]), int(a[2])) })
	reg("c09", "TooSmall", func(a []int64) { c09.TooSmall(int(a[0])) })
	reg("c09", "TwoRounds", func(a []int64) { c09.TwoRounds(int(a[0])) })
	reg("c09", "Direct", func(a []int64) { c09.Direct(int(a[0])) })
	reg("c09", "RoundTrip", func(a []int64) { c09.RoundTrip(int(a[0])) })
	reg("c10", "LowHalf", func(a []int64) { c10.LowHalf(int(a[0]), int(a[1])) })
	reg("c10", "Reads", func(a []int64) { c10.Reads(int(a[0]), int(a[1]), int(a[2]), int(a[3])) })
	reg("c10", "Writes", func(a []int64) { c10.Writes(int(a[0]), int(a[1]), int(a[2]), int(a[3])) })
	reg("c10", "Huge", func(a []int64) { c10.Huge(int(a[0]), int(a[1])) })
	reg("c10", "Handles", func(a []int64) { c10.Handles(int(a[0]), int(a[1]), int(a[2])) })
	reg("c11", "Long", func(a []int64) { c11.Long(int(a[0])) })
	reg("c11", "Address", func(a []int64) { c11.Address(int(a[0])) })
	reg("c12", "StepLemma", func(a []int64) { c12.StepLemma(int(a[0]), int(a[1]), int(a[2]), int(a[3])) })
	reg("c12", "RunUntil", func(a []int64) { c12.RunUntil(int(a[0]), int(a[1]), int(a[2])) })
	reg("c12", "ResetClearsStop", func(a []int64) { c12.ResetClearsStop(int(a[0])) })
	reg("c12", "Callbacks", func(a []int64) { c12.Callbacks(int(a[0]), int(a[1]), int(a[2])) })
	reg("c04", "BusRoundTrip", func(a []int64) { c04.BusRoundTrip(int(a[0])) })
	reg("c04", "PakRoundTrip", func(a []int64) { c04.PakRoundTrip(int(a[0])) })
	reg("c05", "BusWellFormed", func(a []int64) { c05.BusWellFormed(int(a[0])) })
	reg("c05", "PakRejection", func(a []int64) { c05.PakRejection(int(a[0])) })
	reg("c05", "Console", func(a []int64) { c05.Console(int(a[0])) })
	reg("c05", "BusPages", func(a []int64) { c05.BusPages(int(a[0])) })
	reg("c05", "PakPages", func(a []int64) { c05.PakPages(int(a[0])) })
	reg("c13", "Route", func(a []int64) { c13.Route(int(a[0])) })
	reg("c13", "LargeDevice", func(a []int64) { c13.LargeDevice() })
	reg("c13", "Devices", func(a []int64) { c13.Devices() })
	reg("c13", "Route24", func(a []int64) { c13.Route24(int(a[0])) })
	reg("c13", "Misaligned", func(a []int64) { c13.Misaligned(int(a[0]), int(a[1]), int(a[2])) })
	reg("c13", "AfterDump", func(a []int64) { c13.AfterDump(int(a[0]), int(a[1]), int(a[2])) })
	reg("c13", "Dump", func(a []int64) { c13.Dump(int(a[0]), int(a[1]), int(a[2])) })
	reg("c14", "Line", func(a []int64) { c14.Line(int(a[0]), int(a[1]), int(a[2]), int(a[3])) })
	reg("c14", "LoggerOnOff", func(a []int64) { c14.LoggerOnOff(int(a[0]), int(a[1]), int(a[2])) })
	reg("c14", "LoggerAnyBudget", func(a []int64) { c14.LoggerAnyBudget(int(a[0])) })
	reg("c14", "LoggerLongRun", func(a []int64) { c14.LoggerLongRun(int(a[0])) })
	reg("c15", "Listing", func(a []int64) { c15.Listing(a[0], int(a[1]), int(a[2]), int(a[3]), int(a[4])) })
	reg("c15", "Pieces", func(a []int64) { c15.Pieces(a[0], int(a[1]), int(a[2]), int(a[3]), int(a[4]), int(a[5]), int(a[6])) })
	reg("c16", "Split", func(a []int64) { c16.Split(a[0], int(a[1]), int(a[2]), int(a[3]), int(a[4])) })
	reg("c16", "SharedFragment", func(a []int64) { c16.SharedFragment(int(a[0])) })
	reg("c16", "TwoClones", func(a []int64) { c16.TwoClones(int(a[0]), int(a[1])) })
	reg("c16", "AppendTooBig", func(a []int64) { c16.AppendTooBig(int(a[0]), int(a[1]), int(a[2]), int(a[3])) })
	reg("c19", "Data", func(a []int64) { c19.Data(int(a[0]), int(a[1]), int(a[2])) })
	reg("c19", "DrySequence", func(a []int64) { c19.DrySequence(int(a[0]), int(a[1])) })
	reg("c17", "UnpackPack", func(a []int64) { c17.UnpackPack() })
	reg("c17", "PackUnpack", func(a []int64) { c17.PackUnpack() })
	reg("c17", "MulDiv", func(a []int64) { c17.MulDiv() })
	reg("c17", "MulDivIdentity", func(a []int64) { c17.MulDivIdentity() })
	reg("c17", "MulDivMonotone", func(a []int64) { c17.MulDivMonotone(int(a[0])) })
	reg("c17", "MulDivMonotoneMul", func(a []int64) { c17.MulDivMonotoneMul() })
	reg("c17", "MulDivMonotoneDiv", func(a []int64) { c17.MulDivMonotoneDiv() })
	reg("c17", "Luminosity", func(a []int64) { c17.Luminosity() })
}

// ResetState is called by the native replayer before every job.
func ResetState() { cpuenv.Rebuild() }
