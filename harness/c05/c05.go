// Package c05: each mapper's bus decoding is a well-formed image of its memory map (C05).
package c05

import (
	"github.com/alttpo/snes/mapping/util"

	"verif/harness"
	"verif/spec/cartmap"
	"verif/vp"
)

// BusWellFormed: error => (0, ErrUnmappedAddress); success => inside exactly one class window;
// and the result equals the documented region table (class and linear position).
func BusWellFormed(m int) {
	a := vp.U32("bus")
	vp.Assume(a < 1<<24)
	p, err := harness.BusToPak(m, a)
	class, want, ok := cartmap.Lookup(m, a)
	if err != nil {
		vp.Assert("unmapped-result-is-zero", p == 0)
		vp.Assert("unmapped-error-is-ErrUnmappedAddress", err == util.ErrUnmappedAddress)
		vp.Assert("table-says-unmapped-too", !ok)
		vp.Reach("unmapped")
		return
	}
	vp.Assert("table-says-mapped-too", ok)
	vp.Assert("pak-inside-one-class-window", cartmap.ClassOfPak(p) != cartmap.ClassNone)
	vp.Assert("class-matches-region-table", cartmap.ClassOfPak(p) == class)
	vp.Assert("linear-position-matches-region-table", p == want)
	vp.Reach("mapped")
}

// PakRejection: exactly $F00000-$F4FFFF is rejected, with (0, ErrUnmappedAddress).
func PakRejection(m int) {
	q := vp.U32("pak")
	vp.Assume(q < 1<<24)
	b, err := harness.PakToBus(m, q)
	unassigned := q >= 0xF00000 && q <= 0xF4FFFF
	if err != nil {
		vp.Assert("only-unassigned-window-rejected", unassigned)
		vp.Assert("rejected-result-is-zero", b == 0)
		vp.Assert("rejected-error-is-ErrUnmappedAddress", err == util.ErrUnmappedAddress)
		vp.Reach("rejected")
		return
	}
	vp.Assert("unassigned-window-is-rejected", !unassigned)
	// the class and position of every address are those of the documented table: the bus address an
	// accepted pak address is sent to lies, per that table, in a region of the pak address's own class
	vp.Assert("accepted-pak-address-lands-on-the-24-bit-bus", b < 1<<24)
	class, _, ok := cartmap.Lookup(m, b&0xFFFFFF)
	vp.Assert("accepted-pak-address-lands-in-a-documented-region-of-its-own-class", ok && class == cartmap.ClassOfAcceptedPak(q))
	vp.Reach("accepted")
}

// Console: all mappers agree with the console-owned map.
func Console(m int) {
	a := vp.U32("bus")
	vp.Assume(a < 1<<24)
	bank, offs := a>>16, a&0xFFFF
	sysBank := bank <= 0x3F || (bank >= 0x80 && bank <= 0xBF)
	p, err := harness.BusToPak(m, a)
	want, owned := cartmap.Console(a)
	if owned {
		vp.Assert("console-wram-is-mapped", err == nil)
		vp.Assert("console-wram-position", err != nil || p == want)
		vp.Reach("console-owned")
	}
	if sysBank && offs >= 0x2000 && offs <= 0x5FFF {
		vp.Assert("register-area-never-translated", err != nil)
		vp.Reach("register-area")
	}
	vp.Reach("any")
}

// BusPages: mapped regions are unions of whole 8 KiB pages and translation preserves byte order.
func BusPages(m int) {
	a := vp.U32("bus")
	vp.Assume(a < 1<<24 && a&0x1FFF != 0x1FFF)
	p0, e0 := harness.BusToPak(m, a)
	p1, e1 := harness.BusToPak(m, a+1)
	vp.Assert("page-mapped-as-a-whole", (e0 == nil) == (e1 == nil))
	if e0 == nil && e1 == nil {
		vp.Assert("consecutive-bus-addresses-translate-consecutively", p1 == p0+1)
		vp.Reach("mapped")
	}
	vp.Reach("any")
}

func PakPages(m int) {
	q := vp.U32("pak")
	vp.Assume(q < 1<<24 && q&0x1FFF != 0x1FFF)
	b0, e0 := harness.PakToBus(m, q)
	b1, e1 := harness.PakToBus(m, q+1)
	vp.Assert("pak-page-accepted-as-a-whole", (e0 == nil) == (e1 == nil))
	if e0 == nil && e1 == nil {
		vp.Assert("consecutive-pak-addresses-translate-consecutively", b1 == b0+1)
		vp.Reach("accepted")
	}
	vp.Reach("any")
}
