// Package c02: the two interpreters are observationally equivalent, cycle for cycle (C02).
package c02

import (
	"github.com/alttpo/snes/emulator/cpu65c816"
	"github.com/alttpo/snes/emulator/cpualt"

	"verif/harness/cpuenv"
	"verif/vp"
)

// Lockstep runs one Step of both interpreters from the same arbitrary state (mode: 0..3 = native
// with m,x = mode>>1, mode&1; 4 = emulation with m=x=1) and the same memory.
func Lockstep(op int, mode int) {
	m, x, e := uint8(mode>>1&1), uint8(mode&1), uint8(0)
	if mode == 4 {
		m, x, e = 1, 1, 1
	}
	pre := cpuenv.ArbitraryPre(m, x, e)
	pre.Interrupt = vp.U8("interrupt")
	vp.Assume(pre.Interrupt <= 3)
	pre.Stopped = vp.Bool("stopped")
	opAddr := uint32(pre.RK)<<16 | uint32(pre.PC)
	vp.FillBytes("mem", cpuenv.MainMem)
	vp.FillBytes("mem", cpuenv.AltMem)
	cpuenv.MainMem[opAddr] = uint8(op)
	cpuenv.AltMem[opAddr] = uint8(op)
	if pre.Interrupt >= 2 {
		// interrupt entry: the opcode executed is the one at the handler address. The handler address is
		// symbolic (vector in memory); its opcode is pinned by assumption and kept clear of the pushed frame.
		vec := uint32(0xFFEA)
		bank := uint32(pre.RK) << 16
		if pre.Interrupt == 3 {
			vec, bank = 0xFFEE, 0
		}
		target := uint32(cpuenv.MainMem[vec]) | uint32(cpuenv.MainMem[vec+1])<<8
		vp.Assume(target >= 0x2000 && target < 0xFF00 && pre.SP >= 0x0100 && pre.SP < 0x1F00)
		vp.Assume(cpuenv.MainMem[bank|target] == uint8(op))
		vp.Note("interrupt entry (pending NMI/IRQ): handler address in $2000-$FEFF and stack pointer in $0100-$1EFF so that the pushed frame cannot overwrite the handler's opcode")
	}
	a, b := cpuenv.Main, cpuenv.Alt
	pre.ToMain(a)
	pre.ToAlt(b)
	var c1, c2 int
	var s1, s2 bool
	p1 := vp.Try(func() { c1, s1 = a.Step() })
	p2 := vp.Try(func() { c2, s2 = b.Step() })
	vp.Assert("same-failure-status", p1 == p2)
	if p1 || p2 {
		vp.Reach("failed")
		return
	}
	compare(a, b, c1, c2, s1, s2)
	vp.Assert("memory", vp.BytesEqual(cpuenv.MainMem, cpuenv.AltMem))
	vp.Reach("end")
}

// Lockstep2 runs two consecutive Steps of both interpreters (op1, then op2 at wherever op1 left
// the program counter) from one common arbitrary native-mode state and compares after the second:
// state that one interpreter keeps between steps outside the fields of cpuenv.Pre shows here.
func Lockstep2(op1 int, op2 int, mode int) {
	lockSeq([]int{op1, op2}, mode)
}

// Lockstep3: three consecutive Steps of both, everything compared after the third.
func Lockstep3(op1 int, op2 int, op3 int, mode int) {
	lockSeq([]int{op1, op2, op3}, mode)
}

func lockSeq(ops []int, mode int) {
	m, x := uint8(mode>>1&1), uint8(mode&1)
	pre := cpuenv.ArbitraryPre(m, x, 0)
	pre.Interrupt = pre.Interrupt & 1
	pre.Stopped = false
	opAddr := uint32(pre.RK)<<16 | uint32(pre.PC)
	vp.FillBytes("mem", cpuenv.MainMem)
	vp.FillBytes("mem", cpuenv.AltMem)
	cpuenv.MainMem[opAddr] = uint8(ops[0])
	cpuenv.AltMem[opAddr] = uint8(ops[0])
	a, b := cpuenv.Main, cpuenv.Alt
	pre.ToMain(a)
	pre.ToAlt(b)
	var c1, c2 int
	var s1, s2 bool
	vp.Note("multi-instruction jobs: each later opcode is stored under the program counter the instruction before left, in both memories alike; both interpreters assumed to agree on that program counter and not to be stopped")
	for k := 1; k < len(ops); k++ {
		p1 := vp.Try(func() { c1, s1 = a.Step() })
		p2 := vp.Try(func() { c2, s2 = b.Step() })
		if p1 || p2 {
			vp.Reach("earlier-step-failed")
			return
		}
		pcA := uint32(a.RK)<<16 | uint32(a.PC)
		pcB := uint32(b.RK)<<16 | uint32(b.PC)
		vp.Assume(pcA == pcB && !s1 && !s2)
		cpuenv.MainMem[pcA] = uint8(ops[k])
		cpuenv.AltMem[pcB] = uint8(ops[k])
	}
	p1 := vp.Try(func() { c1, s1 = a.Step() })
	p2 := vp.Try(func() { c2, s2 = b.Step() })
	vp.Assert("same-failure-status", p1 == p2)
	if p1 || p2 {
		vp.Reach("failed")
		return
	}
	compare(a, b, c1, c2, s1, s2)
	vp.Assert("memory", vp.BytesEqual(cpuenv.MainMem, cpuenv.AltMem))
	vp.Reach("end")
}

func compare(a *cpu65c816.CPU, b *cpualt.CPU, c1, c2 int, s1, s2 bool) {
	vp.Assert("returned-cycles", c1 == c2)
	vp.Assert("returned-stopped", s1 == s2)
	vp.Assert("cycle-total", a.AllCycles == b.AllCycles)
	vp.Assert("step-cycles", a.Cycles == b.Cycles)
	vp.Assert("stopped-latch", a.Stopped == b.Stopped)
	vp.Assert("PC", a.PC == b.PC)
	vp.Assert("SP", a.SP == b.SP)
	vp.Assert("RA", a.RA == b.RA)
	vp.Assert("RX", a.RX == b.RX)
	vp.Assert("RY", a.RY == b.RY)
	vp.Assert("RAh", a.RAh == b.RAh)
	vp.Assert("RAl", a.RAl == b.RAl)
	vp.Assert("RXl", a.RXl == b.RXl)
	vp.Assert("RYl", a.RYl == b.RYl)
	vp.Assert("RDBR", a.RDBR == b.RDBR)
	vp.Assert("RD", a.RD == b.RD)
	vp.Assert("RK", a.RK == b.RK)
	vp.Assert("flag-N", a.N == b.N)
	vp.Assert("flag-V", a.V == b.V)
	vp.Assert("flag-M", a.M == b.M)
	vp.Assert("flag-X", a.X == b.X)
	vp.Assert("flag-D", a.D == b.D)
	vp.Assert("flag-I", a.I == b.I)
	vp.Assert("flag-Z", a.Z == b.Z)
	vp.Assert("flag-C", a.C == b.C)
	vp.Assert("flag-B", a.B == b.B)
	vp.Assert("flag-E", a.E == b.E)
	vp.Assert("interrupt-latch", a.Interrupt == b.Interrupt)
	vp.Assert("debug-registers", a.PPC == b.PPC && a.PRK == b.PRK && a.WDM == b.WDM)
}

// Copy: CPUs made with InitFrom from live, initialised CPUs (both kinds) are interpreters of their
// own: stepping the two copies is equivalent, and leaves the CPUs they were copied from untouched
// (a copy shares the bus / memory devices of its original).
func Copy(op int, mode int) {
	m, x := uint8(mode>>1&1), uint8(mode&1)
	pre := cpuenv.ArbitraryPre(m, x, 0)
	pre.Interrupt = 0
	pre.Stopped = false
	opAddr := uint32(pre.RK)<<16 | uint32(pre.PC)
	vp.FillBytes("mem", cpuenv.MainMem)
	vp.FillBytes("mem", cpuenv.AltMem)
	cpuenv.MainMem[opAddr] = uint8(op)
	cpuenv.AltMem[opAddr] = uint8(op)
	a, b, orig, origMain := cpuenv.MainCopy, cpuenv.AltCopy, cpuenv.Alt, cpuenv.Main
	pre.ToMain(a)
	pre.ToAlt(b)
	pre.ToAlt(orig)
	pre.ToMain(origMain)
	var c1, c2 int
	var s1, s2 bool
	p1 := vp.Try(func() { c1, s1 = a.Step() })
	p2 := vp.Try(func() { c2, s2 = b.Step() })
	vp.Assert("same-failure-status", p1 == p2)
	if p1 || p2 {
		vp.Reach("failed")
		return
	}
	compare(a, b, c1, c2, s1, s2)
	vp.Assert("memory", vp.BytesEqual(cpuenv.MainMem, cpuenv.AltMem))
	back := cpuenv.FromAlt(orig)
	backMain := cpuenv.FromMain(origMain)
	backMain.BusM = pre.BusM // cpu65c816 has no such field
	vp.Assert("stepping-a-copy-leaves-the-original-cpu-untouched", back == pre && backMain == pre)
	vp.Reach("end")
}

func both(name string) (*cpu65c816.CPU, *cpualt.CPU, cpuenv.Pre) {
	pre := cpuenv.ArbitraryPre(bit("m"), bit("x"), bit("e"))
	pre.Interrupt = vp.U8("interrupt")
	vp.Assume(pre.Interrupt <= 3)
	pre.Stopped = vp.Bool("stopped")
	vp.FillBytes("mem", cpuenv.MainMem)
	vp.FillBytes("mem", cpuenv.AltMem)
	a, b := cpuenv.Main, cpuenv.Alt
	pre.ToMain(a)
	pre.ToAlt(b)
	return a, b, pre
}

func bit(name string) uint8 {
	if vp.Bool(name) {
		return 1
	}
	return 0
}

// Trigger: the exported interrupt request acts identically on both interpreters (it is honoured
// exactly when the I flag is clear) and touches nothing but the latch.
func Trigger() {
	a, b, pre := both("trigger")
	a.TriggerIRQ()
	b.TriggerIRQ()
	compare(a, b, 0, 0, false, false)
	vp.Assert("memory", vp.BytesEqual(cpuenv.MainMem, cpuenv.AltMem))
	want := pre
	if pre.I == 0 {
		want.Interrupt = 3
	}
	vp.Assert("irq-request-sets-only-the-latch-and-only-when-not-masked", cpuenv.FromMain(a) == func() cpuenv.Pre { w := want; w.BusM = 0; return w }())
	vp.Reach("end")
}

// Reset: both interpreters come out of Reset in the same state (vector fetched from $00:FFFC).
func Reset() {
	a, b, _ := both("reset")
	f1 := vp.Try(func() { a.Reset() })
	f2 := vp.Try(func() { b.Reset() })
	vp.Assert("same-failure-status", f1 == f2)
	if f1 || f2 {
		return
	}
	compare(a, b, 0, 0, false, false)
	vp.Assert("memory", vp.BytesEqual(cpuenv.MainMem, cpuenv.AltMem))
	vp.Reach("end")
}

// Fresh: CPUs built through the public constructors (cpu65c816.New over a fresh bus.Bus with one RAM,
// cpualt.CPU.Init plus AttachReader/AttachWriter) start in the same state and, once given the same
// registers, execute the same step. This is the only job that runs cpualt's Init (2^21 open-bus closures).
func Fresh(op int) {
	vp.FillBytes("mem", cpuenv.MainMem)
	vp.FillBytes("mem", cpuenv.AltMem)
	a, err := cpu65c816.New(cpuenv.MainBus)
	vp.Assert("constructor-succeeds", err == nil && a != nil)
	b := &cpualt.CPU{}
	b.Init()
	b.Bus.AttachReader(0x000000, 0xFFFFFF, func(addr uint32) uint8 { return cpuenv.AltMem[addr] })
	b.Bus.AttachWriter(0x000000, 0xFFFFFF, func(addr uint32, val uint8) { cpuenv.AltMem[addr] = val })
	compare(a, b, 0, 0, false, false)
	vp.Assert("fresh-cpu-is-not-stopped", !a.Stopped && !b.Stopped)
	pre := cpuenv.ArbitraryPre(bit("m"), bit("x"), 0)
	pre.Interrupt = 0
	opAddr := uint32(pre.RK)<<16 | uint32(pre.PC)
	cpuenv.MainMem[opAddr] = uint8(op)
	cpuenv.AltMem[opAddr] = uint8(op)
	pre.ToMain(a)
	pre.ToAlt(b)
	var c1, c2 int
	var s1, s2 bool
	p1 := vp.Try(func() { c1, s1 = a.Step() })
	p2 := vp.Try(func() { c2, s2 = b.Step() })
	vp.Assert("same-failure-status", p1 == p2)
	if p1 || p2 {
		return
	}
	compare(a, b, c1, c2, s1, s2)
	vp.Assert("memory", vp.BytesEqual(cpuenv.MainMem, cpuenv.AltMem))
	vp.Reach("end")
}
