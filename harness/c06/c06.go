// Package c06: Finalize resolves every label reference or reports an error (C06).
//
// A program is a sequence of 4-bit op codes (least significant digit first):
//
//	1,2  define label L0 / L1          3,4  branch to L0 / L1 (relative, signed 8 bit)
//	5,6  JMP_abs L0 / L1 (16 bit)      7    NOP
//	8-15 data block of PadSizes[op-8] symbolic bytes
//
// The harness keeps its own books (where each reference's operand sits, where each label is) and
// compares Finalize's outcome and every byte of the result with what those books prescribe.
package c06

import (
	"github.com/alttpo/snes/asm"

	"verif/vp"
)

var PadSizes = [8]int{1, 2, 3, 123, 124, 125, 126, 127}

var labelNames = [2]string{"L0", "L1"}

type ref struct {
	pos   int // offset of the operand in the code
	label int
	wide  bool
}

func contains(s, sub string) bool {
	for i := 0; i+len(sub) <= len(s); i++ {
		if s[i:i+len(sub)] == sub {
			return true
		}
	}
	return false
}

func branch(e *asm.Emitter, kind int, label string) {
	switch kind {
	case 0:
		e.BNE(label)
	case 1:
		e.BEQ(label)
	case 2:
		e.BPL(label)
	case 3:
		e.BMI(label)
	case 4:
		e.BCC(label)
	case 5:
		e.BCS(label)
	default:
		e.BRA(label)
	}
}

// Program runs the op sequence prog (nops digits), then Finalize, and checks the C06 obligations.
// brKind selects the relative-branch method; withBase: SetBase(symbolic, bank-contained) first.
func Program(prog int64, nops int, brKind int, withBase int) {
	buf := vp.Bytes("buf", 600)
	e := asm.NewEmitter(buf, vp.Choose("listing", 2) == 1)
	base := uint32(0)
	if withBase == 1 {
		base = vp.U32("base")
		vp.Assume(base < 1<<24 && base&0xFFFF <= 0xFFFF-600) // program within one bank
		e.SetBase(base)
	}
	var refs []ref
	labelAt := [2]int{-1, -1}
	dupRejected := false
	p := prog
	for i := 0; i < nops; i++ {
		op := int(p & 15)
		p >>= 4
		switch {
		case op == 1 || op == 2:
			l := op - 1
			if labelAt[l] >= 0 {
				// defining the same label twice must be rejected and change nothing
				n0, pc0 := e.Len(), e.PC()
				a0, _ := e.GetLabel(labelNames[l])
				rejected := vp.Try(func() { e.Label(labelNames[l]) })
				vp.Assert("duplicate-label-rejected", rejected)
				a1, ok1 := e.GetLabel(labelNames[l])
				vp.Assert("duplicate-label-changes-nothing", e.Len() == n0 && e.PC() == pc0 && ok1 && a1 == a0)
				dupRejected = true
				continue
			}
			labelAt[l] = e.Len()
			got := e.Label(labelNames[l])
			vp.Assert("label-address-is-current-pc", got == base+uint32(labelAt[l]) && got == e.PC())
		case op == 3 || op == 4:
			branch(e, brKind, labelNames[op-3])
			refs = append(refs, ref{pos: e.Len() - 1, label: op - 3})
		case op == 5 || op == 6:
			e.JMP_abs(labelNames[op-5])
			refs = append(refs, ref{pos: e.Len() - 2, label: op - 5, wide: true})
		case op == 7:
			e.NOP()
		case op >= 8:
			e.EmitBytes(vp.Bytes("pad"+string(rune('a'+i)), PadSizes[op-8]))
		}
	}
	_ = dupRejected
	// expected outcome from the books
	expectErr := false
	missing := [2]bool{}
	for _, r := range refs {
		if labelAt[r.label] < 0 {
			expectErr, missing[r.label] = true, true
			continue
		}
		if !r.wide {
			d := labelAt[r.label] - (r.pos + 1)
			if d > 127 || d < -128 {
				expectErr = true
			}
		}
	}
	n := e.Len()
	pc := e.PC()
	before := make([]byte, n)
	copy(before, e.Bytes())
	err := e.Finalize()
	vp.Assert("finalize-fails-exactly-when-a-reference-is-unresolved-or-out-of-range", (err != nil) == expectErr)
	vp.Assert("finalize-keeps-length-and-pc", e.Len() == n && e.PC() == pc)
	after := e.Bytes()
	isOperand := make([]bool, n)
	for _, r := range refs {
		isOperand[r.pos] = true
		if r.wide {
			isOperand[r.pos+1] = true
		}
	}
	same := len(after) == n
	if same {
		for i := 0; i < n; i++ {
			if !isOperand[i] && after[i] != before[i] {
				same = false
			}
		}
	}
	vp.Assert("only-operand-bytes-of-label-references-change", same)
	if err != nil {
		if expectErr {
			onlyMissing := true
			for _, r := range refs {
				if labelAt[r.label] >= 0 && !r.wide {
					d := labelAt[r.label] - (r.pos + 1)
					if d > 127 || d < -128 {
						onlyMissing = false
					}
				}
			}
			if onlyMissing { // the error must then name one of the unresolved labels
				msg := err.Error()
				named := (missing[0] && contains(msg, "L0")) || (missing[1] && contains(msg, "L1")) // however it is quoted
				vp.Assert("error-names-an-unresolved-label", named)
			}
		}
		retry(e, refs, &labelAt, missing, base, isOperand, before)
		vp.Reach("failed")
		return
	}
	if expectErr {
		return
	}
	vp.Assert("every-reference-resolved-to-its-target", resolved(refs, &labelAt, base, after))
	// Finalize on a finalized program: same verdict, nothing changes
	fin := make([]byte, n)
	copy(fin, after)
	vp.Assert("a-repeated-finalize-succeeds-again", e.Finalize() == nil)
	vp.Assert("a-repeated-finalize-changes-nothing", e.Len() == n && e.PC() == pc && vp.BytesEqual(e.Bytes(), fin))
	vp.Reach("resolved")
}

func resolved(refs []ref, labelAt *[2]int, base uint32, after []byte) bool {
	okOps := true
	for _, r := range refs {
		target := base + uint32(labelAt[r.label])
		if r.wide {
			if after[r.pos] != byte(target) || after[r.pos+1] != byte(target>>8) {
				okOps = false
			}
		} else {
			d := labelAt[r.label] - (r.pos + 1)
			if after[r.pos] != byte(int8(d)) {
				okOps = false
			}
		}
	}
	return okOps
}

// retry: the verdict of Finalize is a function of the program, not of earlier attempts. After a
// failure, a second call with nothing changed fails again; once every missing label has been
// defined (at the current end of the program) the outcome is again the one the books prescribe.
func retry(e *asm.Emitter, refs []ref, labelAt *[2]int, missing [2]bool, base uint32, isOperand []bool, before []byte) {
	vp.Assert("a-repeated-finalize-fails-again-while-the-cause-remains", e.Finalize() != nil)
	n := e.Len()
	for l := 0; l < 2; l++ {
		if missing[l] {
			labelAt[l] = n
			e.Label(labelNames[l])
		}
	}
	expectErr := false
	for _, r := range refs {
		if !r.wide {
			d := labelAt[r.label] - (r.pos + 1)
			if d > 127 || d < -128 {
				expectErr = true
			}
		}
	}
	err := e.Finalize()
	vp.Assert("finalize-fails-exactly-when-a-reference-is-unresolved-or-out-of-range", (err != nil) == expectErr)
	after := e.Bytes()
	same := len(after) == n
	if same {
		for i := 0; i < n; i++ {
			if !isOperand[i] && after[i] != before[i] {
				same = false
			}
		}
	}
	vp.Assert("only-operand-bytes-of-label-references-change", same)
	if err == nil && !expectErr {
		vp.Assert("every-reference-resolved-to-its-target", resolved(refs, labelAt, base, after))
		vp.Reach("resolved-on-retry")
	}
}
