// Package c12: cycle accounting, stop latch, callbacks and RunUntil (C12).
package c12

import (
	"github.com/alttpo/snes/emulator"

	"verif/harness/cpuenv"
	"verif/vp"
)

func modeBits(mode int) (m, x, e uint8) {
	m, x, e = uint8(mode>>1&1), uint8(mode&1), 0
	if mode == 4 {
		m, x, e = 1, 1, 1
	}
	return
}

// StepLemma: one Step of either interpreter from any state.
func StepLemma(cpu int, op int, mode int, intr int) {
	m, x, e := modeBits(mode)
	pre := cpuenv.ArbitraryPre(m, x, e)
	// intr < 0: no interrupt entry (latch 0 or 1, symbolic); 2 / 3: a pending NMI / IRQ is delivered
	if intr < 0 {
		pre.Interrupt = pre.Interrupt & 1
	} else {
		pre.Interrupt = uint8(intr)
	}
	pre.Stopped = vp.Bool("stopped")
	opAddr := uint32(pre.RK)<<16 | uint32(pre.PC)
	var n int
	var stopped, latch, panicked bool
	var all uint64
	var cyc uint8
	mem := cpuenv.MainMem
	if cpu == 1 {
		mem = cpuenv.AltMem
	}
	vp.FillBytes("mem", mem)
	mem[opAddr] = uint8(op)
	if pre.Interrupt >= 2 {
		// interrupt entry (pending NMI/IRQ): the instruction executed is the one at the handler address;
		// its opcode is pinned by assumption and kept clear of the pushed frame (as in C02)
		vec := uint32(0xFFEA)
		bank := uint32(pre.RK) << 16
		if pre.Interrupt == 3 {
			vec, bank = 0xFFEE, 0
		}
		target := uint32(mem[vec]) | uint32(mem[vec+1])<<8
		vp.Assume(target >= 0x2000 && target < 0xFF00 && pre.SP >= 0x0100 && pre.SP < 0x1F00)
		vp.Assume(mem[bank|target] == uint8(op))
	}
	if cpu == 0 {
		c := cpuenv.Main
		pre.ToMain(c)
		panicked = vp.Try(func() { n, stopped = c.Step() })
		all, cyc, latch = c.AllCycles, c.Cycles, c.Stopped
	} else {
		c := cpuenv.Alt
		pre.ToAlt(c)
		panicked = vp.Try(func() { n, stopped = c.Step() })
		all, cyc, latch = c.AllCycles, c.Cycles, c.Stopped
	}
	vp.Assume(!panicked) // runtime failures are C08's subject
	vp.Assert("at-least-one-cycle", n >= 1)
	vp.Assert("reported-cycles-are-the-step-cycles", n == int(cyc))
	vp.Assert("total-advances-by-reported-cycles", all == pre.AllCycles+uint64(n))
	vp.Assert("stop-reported-iff-latched", stopped == latch)
	vp.Assert("stop-latched-exactly-from-STP-on", latch == (pre.Stopped || op == 0xDB))
	vp.Reach("end")
}

// ResetClearsStop: Reset clears the stop latch; Init yields a CPU that is not stopped.
func ResetClearsStop(cpu int) {
	if cpu == 0 {
		vp.FillBytes("mem", cpuenv.MainMem)
		c := cpuenv.Main
		cpuenv.ArbitraryPre(bit("m"), bit("x"), bit("e")).ToMain(c)
		c.Stopped = true
		c.Reset()
		vp.Assert("reset-clears-stop", !c.Stopped)
	} else {
		vp.FillBytes("mem", cpuenv.AltMem)
		c := cpuenv.Alt
		cpuenv.ArbitraryPre(bit("m"), bit("x"), bit("e")).ToAlt(c)
		c.Stopped = true
		c.Reset()
		vp.Assert("reset-clears-stop", !c.Stopped)
	}
	vp.Reach("end")
}

func bit(name string) uint8 {
	if vp.Bool(name) {
		return 1
	}
	return 0
}

// Callbacks: a registered program-counter callback runs exactly once, before the opcode fetch,
// iff its key equals K:PC at entry; OnWDM receives exactly the WDM operand. Both interpreters
// export OnPC and OnWDM.
func Callbacks(cpu int, op int, mode int) {
	m, x, e := modeBits(mode)
	pre := cpuenv.ArbitraryPre(m, x, e)
	pre.Interrupt = pre.Interrupt & 1
	opAddr := uint32(pre.RK)<<16 | uint32(pre.PC)
	key := vp.U32("callback-key")
	calls, wdmCalls := 0, 0
	var pcAtCall uint32
	var cyclesAtCall uint64
	var wdmArg, operand uint8
	var panicked bool
	onWDM := func(w byte) { wdmCalls++; wdmArg = w }
	if cpu == 0 {
		vp.FillBytes("mem", cpuenv.MainMem)
		cpuenv.MainMem[opAddr] = uint8(op)
		c := cpuenv.Main
		pre.ToMain(c)
		c.OnPC = map[uint32]func(){key: func() {
			calls++
			pcAtCall = uint32(c.RK)<<16 | uint32(c.PC)
			cyclesAtCall = c.AllCycles
		}}
		c.OnWDM = onWDM
		operand = cpuenv.MainMem[uint32(pre.RK)<<16|uint32(pre.PC+1)]
		panicked = vp.Try(func() { c.Step() })
		c.OnPC, c.OnWDM = nil, nil
	} else {
		vp.FillBytes("mem", cpuenv.AltMem)
		cpuenv.AltMem[opAddr] = uint8(op)
		c := cpuenv.Alt
		pre.ToAlt(c)
		c.OnPC = map[uint32]func(){key: func() {
			calls++
			pcAtCall = uint32(c.RK)<<16 | uint32(c.PC)
			cyclesAtCall = c.AllCycles
		}}
		c.OnWDM = onWDM
		operand = cpuenv.AltMem[uint32(pre.RK)<<16|uint32(pre.PC+1)]
		panicked = vp.Try(func() { c.Step() })
		c.OnPC, c.OnWDM = nil, nil
	}
	vp.Assume(!panicked)
	if key == opAddr {
		vp.Assert("pc-callback-runs-exactly-once-at-its-address", calls == 1)
		vp.Assert("pc-callback-runs-before-the-instruction", calls != 1 || (pcAtCall == opAddr && cyclesAtCall == pre.AllCycles))
		vp.Reach("hit")
	} else {
		vp.Assert("pc-callback-does-not-run-elsewhere", calls == 0)
		vp.Reach("miss")
	}
	if op == 0x42 {
		vp.Assert("wdm-callback-runs-once", wdmCalls == 1)
		vp.Assert("wdm-callback-receives-the-operand", wdmArg == operand)
	} else {
		vp.Assert("wdm-callback-only-for-wdm", wdmCalls == 0)
	}
}

// alphabet of the RunUntil programs (m=x=1): name, bytes (0xF0/0xF1 = low/high byte of the program start)
var alphabet = [][]uint8{
	{0xEA},             // NOP
	{0xE8},             // INX
	{0xA9, 0x5A},       // LDA #$5A
	{0x80, 0x00},       // BRA +0
	{0xDB},             // STP
	{0x4C, 0xF0, 0xF1}, // JMP start
	{0x42, 0x07},       // WDM #7
	{0x80, 0xFE},       // BRA -2 (spin)
}

const AlphabetSize = 8

// RunUntil runs the real System.RunUntil over a program of k instructions (digits of prog in base
// AlphabetSize) followed by a spin loop, from an arbitrary register state, with a symbolic target
// address and a symbolic cycle budget <= maxBudget.
func RunUntil(prog int, k int, maxBudget int) {
	s := cpuenv.Sys
	c := &s.CPU
	pre := cpuenv.ArbitraryPre(1, 1, 0)
	pre.Interrupt = pre.Interrupt & 1
	pre.ToMain(c)
	vp.FillBytes("mem", cpuenv.MainMem)
	bank := uint32(pre.RK) << 16
	start := pre.PC
	at := func(off uint16) uint32 { return bank | uint32(start+off) }
	var off uint16
	var starts []uint32
	emit := func(ins []uint8) {
		starts = append(starts, at(off))
		for _, b := range ins {
			switch b {
			case 0xF0:
				b = uint8(start)
			case 0xF1:
				b = uint8(start >> 8)
			}
			cpuenv.MainMem[at(off)] = b
			off++
		}
	}
	p := prog
	for i := 0; i < k; i++ {
		emit(alphabet[p%AlphabetSize])
		p /= AlphabetSize
	}
	emit(alphabet[7])
	target := vp.U32("target")
	budget := vp.U64("budget")
	vp.Assume(target < 1<<24 && budget <= uint64(maxBudget))
	executed := 0
	ok1, ok2 := true, true
	all0 := pre.AllCycles
	cb := func() {
		executed++
		if uint32(c.RK)<<16|uint32(c.PC) == target {
			ok1 = false
		}
		if c.AllCycles-all0 >= budget {
			ok2 = false
		}
	}
	c.OnPC = map[uint32]func(){}
	for _, a := range starts {
		c.OnPC[a] = cb
	}
	s.Logger = nil
	var res bool
	panicked := vp.Try(func() { res = s.RunUntil(target, budget) })
	vp.Assume(!panicked)
	pcNow := uint32(c.RK)<<16 | uint32(c.PC)
	vp.Assert("returns-true-iff-pc-equals-target", res == (pcNow == target))
	vp.Assert("never-executes-the-instruction-at-the-target", ok1)
	vp.Assert("executes-only-while-budget-not-consumed", ok2)
	if at(0) == target {
		vp.Assert("executes-nothing-when-already-at-target", executed == 0 && c.AllCycles == all0)
		vp.Reach("already-there")
	}
	if budget == 0 {
		vp.Assert("executes-nothing-with-zero-budget", executed == 0)
	}
	vp.Assert("stops-as-soon-as-budget-consumed-or-target-reached", pcNow == target || c.AllCycles-all0 >= budget)
	c.OnPC = nil
	vp.Reach("end")
}

var _ = emulator.System{}
