// Package c04: PakAddressToBus is a right inverse of BusAddressToPak (property C04).
package c04

import (
	"verif/harness"
	"verif/spec/cartmap"
	"verif/vp"
)

// BusRoundTrip: bus -> pak = (p, nil)  =>  pak -> bus(p) = (b', nil) and bus -> pak(b') = (p, nil).
func BusRoundTrip(m int) {
	b := vp.U32("bus")
	vp.Assume(b < 1<<24)
	vp.Tag("lorom_sram_pak_E7", m == 0 && b>>16 >= 0xFE && b&0x8000 == 0)
	p, err := harness.BusToPak(m, b)
	if err != nil {
		vp.Reach("unmapped")
		return
	}
	b2, err2 := harness.PakToBus(m, p)
	vp.Assert("pak-of-mapped-bus-is-accepted", err2 == nil)
	if err2 != nil {
		return
	}
	vp.Assert("back-translation-stays-24-bit", b2 < 1<<24)
	p2, err3 := harness.BusToPak(m, b2)
	vp.Assert("returned-bus-address-is-mapped", err3 == nil)
	if err3 != nil {
		return
	}
	vp.Assert("round-trip-yields-same-pak", p2 == p)
	vp.Reach("mapped")
}

// PakRoundTrip: pak -> bus(q) = (b, nil)  =>  bus -> pak(b) = (p', nil), same class, same offset in 8 KiB page.
func PakRoundTrip(m int) {
	q := vp.U32("pak")
	vp.Assume(q < 1<<24)
	vp.Tag("lorom_sram_pak_E7", m == 0 && q >= 0xE00000 && q < 0xF00000 && (q-0xE00000)&0x7FFFF >= 0x70000)
	b, err := harness.PakToBus(m, q)
	if err != nil {
		vp.Reach("rejected")
		return
	}
	vp.Assert("bus-address-is-24-bit", b < 1<<24)
	p, err2 := harness.BusToPak(m, b)
	vp.Assert("returned-bus-address-is-mapped", err2 == nil)
	if err2 != nil {
		return
	}
	vp.Assert("same-memory-class", cartmap.ClassOfPak(p) == cartmap.ClassOfAcceptedPak(q) && cartmap.ClassOfPak(p) != cartmap.ClassNone)
	vp.Assert("same-offset-in-8k-page", p&0x1FFF == q&0x1FFF)
	vp.Reach("accepted")
}
