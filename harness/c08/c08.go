// Package c08: the CPU stays inside the 24-bit address space and never crashes on mapped memory (C08).
package c08

import (
	"verif/harness/cpuenv"
	"verif/vp"
)

// Step: with the whole 16 MiB bus mapped (backends of exactly 2^24 bytes, so an address >= 2^24
// cannot be served without a Go runtime failure), one Step from any state completes.
func Step(cpu int, op int, mode int) {
	m, x, e := uint8(mode>>1&1), uint8(mode&1), uint8(0)
	if mode == 4 {
		m, x, e = 1, 1, 1
	}
	pre := cpuenv.ArbitraryPre(m, x, e)
	pre.Interrupt = pre.Interrupt & 1
	pre.Stopped = vp.Bool("stopped")
	opAddr := uint32(pre.RK)<<16 | uint32(pre.PC)
	vp.Tag("data_bank_FF", pre.RDBR == 0xFF)
	var panicked bool
	if cpu == 0 {
		vp.FillBytes("mem", cpuenv.MainMem)
		cpuenv.MainMem[opAddr] = uint8(op)
		pre.ToMain(cpuenv.Main)
		panicked = vp.Try(func() { cpuenv.Main.Step() })
	} else {
		vp.FillBytes("mem", cpuenv.AltMem)
		cpuenv.AltMem[opAddr] = uint8(op)
		pre.ToAlt(cpuenv.Alt)
		panicked = vp.Try(func() { cpuenv.Alt.Step() })
	}
	vp.Assert("completes-and-every-access-below-2^24", !panicked)
	vp.Reach("end")
}
