// Package c13: bus routing follows Attach exactly and EaDump agrees with byte-wise reads (C13).
package c13

import (
	"github.com/alttpo/snes/emulator/bus"
	"github.com/alttpo/snes/emulator/memory"

	"verif/vp"
)

// probe is a Memory that records how it was used; Read returns a value that depends on the
// probe and on the full address it was given.
type probe struct {
	id       byte
	reads    int
	writes   int
	lastAddr uint32
	lastVal  byte
}

func (p *probe) value(address uint32) byte { return byte(address)*3 + byte(address>>8) + p.id*0x41 }

func (p *probe) Read(address uint32) byte {
	p.reads++
	p.lastAddr = address
	return p.value(address)
}

func (p *probe) Write(address uint32, value byte) {
	p.writes++
	p.lastAddr, p.lastVal = address, value
}

func (p *probe) Shutdown()                  {}
func (p *probe) Size() uint32               { return 0 }
func (p *probe) Clear()                     {}
func (p *probe) Dump(address uint32) []byte { return nil }

// Window: bus addresses $0F00-$10FF; segment s (0..31) is $0F00+16*s .. +15.
const winBase = 0x0F00
const winSegs = 32

// Ranges of segments used by the layouts (inclusive), relative to the window.
var Ranges = [8][2]int{{8, 23}, {8, 15}, {16, 23}, {12, 19}, {10, 10}, {23, 23}, {8, 8}, {14, 17}}

// build attaches up to three probes following layout (3 base-9 digits, 0 = no attach, d = Ranges[d-1])
// and returns the bus, the probes and for every window segment the index of the probe that must serve it.
func build(layout int) (*bus.Bus, [3]*probe, [winSegs]int) {
	b, _ := bus.New()
	var ps [3]*probe
	var owner [winSegs]int
	for i := range owner {
		owner[i] = -1
	}
	for i := 0; i < 3; i++ {
		d := layout % 9
		layout /= 9
		ps[i] = &probe{id: byte(i + 1)}
		if d == 0 {
			continue
		}
		lo, hi := Ranges[d-1][0], Ranges[d-1][1]
		err := b.Attach(ps[i], "probe", uint32(winBase+16*lo), uint32(winBase+16*hi+15))
		vp.Assert("aligned-attach-accepted", err == nil)
		for s := lo; s <= hi; s++ {
			owner[s] = i
		}
	}
	return b, ps, owner
}

// Route: one read and one write at a symbolic address in the window after the layout's attaches.
func Route(layout int) {
	b, ps, owner := build(layout)
	a := uint32(winBase) + uint32(vp.U16("offset"))
	vp.Assume(a < winBase+16*winSegs)
	seg := int(a-winBase) >> 4
	// concretise the owner for this address (the segment index is symbolic: select by comparison)
	own := -1
	for s := 0; s < winSegs; s++ {
		if seg == s {
			own = owner[s]
		}
	}
	var got byte
	failedR := vp.Try(func() { got = b.EaRead(a) })
	if own < 0 {
		vp.Assert("unattached-address-fails-loudly-on-read", failedR)
		failedW := vp.Try(func() { b.EaWrite(a, 0x5A) })
		vp.Assert("unattached-address-fails-loudly-on-write", failedW)
		for i := 0; i < 3; i++ {
			vp.Assert("unattached-access-reaches-no-memory", ps[i].reads == 0 && ps[i].writes == 0)
		}
		vp.Reach("unattached")
		return
	}
	vp.Assert("attached-address-is-served", !failedR)
	if failedR {
		return
	}
	for i := 0; i < 3; i++ {
		if i == own {
			vp.Assert("read-goes-to-the-most-recently-attached-memory", ps[i].reads == 1)
			vp.Assert("read-receives-the-full-unmodified-address", ps[i].lastAddr == a)
			vp.Assert("read-returns-that-memorys-byte", got == ps[i].value(a))
		} else {
			vp.Assert("read-reaches-no-other-memory", ps[i].reads == 0)
		}
	}
	v := vp.U8("value")
	failedW := vp.Try(func() { b.EaWrite(a, v) })
	vp.Assert("attached-address-accepts-writes", !failedW)
	for i := 0; i < 3; i++ {
		if i == own {
			vp.Assert("write-goes-to-the-most-recently-attached-memory", ps[i].writes == 1 && ps[i].lastAddr == a && ps[i].lastVal == v)
		} else {
			vp.Assert("write-reaches-no-other-memory", ps[i].writes == 0)
		}
	}
	second(b, ps, &owner)
	vp.Reach("attached")
}

// second: routing is a function of the address alone, not of what was accessed before: after the
// accesses already made on this bus, a read at another arbitrary window address still goes to the
// memory attached over *that* address (or fails loudly).
func second(b *bus.Bus, ps [3]*probe, owner *[winSegs]int) {
	a2 := uint32(winBase) + uint32(vp.U16("offset-2"))
	vp.Assume(a2 < winBase+16*winSegs)
	own2 := ownerOf(owner, a2)
	before := [3]int{ps[0].reads, ps[1].reads, ps[2].reads}
	var got byte
	failed := vp.Try(func() { got = b.EaRead(a2) })
	if own2 < 0 {
		vp.Assert("a-later-access-is-routed-by-its-own-address", failed && ps[0].reads == before[0] && ps[1].reads == before[1] && ps[2].reads == before[2])
		return
	}
	ok := !failed && got == ps[own2].value(a2) && ps[own2].lastAddr == a2
	for i := 0; i < 3; i++ {
		want := before[i]
		if i == own2 {
			want++
		}
		if ps[i].reads != want {
			ok = false
		}
	}
	vp.Assert("a-later-access-is-routed-by-its-own-address", ok)
}

// ownerOf selects the owner of a (symbolic) window address by comparison.
func ownerOf(owner *[winSegs]int, a uint32) int {
	own := -1
	for s := 0; s < winSegs; s++ {
		if int(a-winBase)>>4 == s {
			own = owner[s]
		}
	}
	return own
}

// Route24: the three-byte read (EaRead24_wrap) at a symbolic window address: every one of the three
// bytes goes to the memory most recently attached over *its own* address, with the full address,
// and the read fails loudly when any of the three addresses is unattached.
func Route24(layout int) {
	b, ps, owner := build(layout)
	off := vp.U16("offset")
	vp.Assume(uint32(off) >= winBase && uint32(off)+2 < winBase+16*winSegs)
	var own [3]int
	var want uint32
	for k := 0; k < 3; k++ {
		a := uint32(off) + uint32(k)
		own[k] = ownerOf(&owner, a)
		if own[k] >= 0 {
			want |= uint32(ps[own[k]].value(a)) << (8 * k)
		}
	}
	var got uint32
	failed := vp.Try(func() { got = b.EaRead24_wrap(0, off) })
	if own[0] < 0 || own[1] < 0 || own[2] < 0 {
		vp.Assert("unattached-address-fails-loudly-on-read", failed)
		vp.Reach("unattached")
		return
	}
	vp.Assert("attached-address-is-served", !failed)
	if failed {
		return
	}
	vp.Assert("each-byte-of-a-long-read-comes-from-the-memory-attached-over-its-address", got == want)
	for i := 0; i < 3; i++ {
		cnt := 0
		for k := 0; k < 3; k++ {
			if own[k] == i {
				cnt++
			}
		}
		vp.Assert("long-read-reaches-each-memory-once-per-byte-it-owns", ps[i].reads == cnt)
	}
	if own[2] >= 0 {
		vp.Assert("read-receives-the-full-unmodified-address", ps[own[2]].lastAddr == uint32(off)+2)
	}
	vp.Reach("attached")
}

// Misaligned: an Attach whose range is not 16-byte aligned is rejected and changes no routing.
// The range starts somewhere in window segment seg0 and ends somewhere in segment seg1 (the low
// nibbles of both bounds are symbolic, assumed misaligned); FarAway additionally tries fully
// symbolic 24-bit bounds.
func Misaligned(layout int, seg0 int, seg1 int) {
	b, ps, _ := build(layout)
	var start, end uint32
	if seg0 < 0 {
		start, end = vp.U32("start"), vp.U32("end")
		vp.Assume(start < 1<<24 && end < 1<<24)
	} else {
		start = uint32(winBase+16*seg0) | uint32(vp.U8("start-nibble")&0xF)
		end = uint32(winBase+16*seg1) | uint32(vp.U8("end-nibble")&0xF)
	}
	vp.Assume(start&0xF != 0 || (end+1)&0xF != 0)
	intruder := &probe{id: 9}
	var err error
	failed := vp.Try(func() { err = b.Attach(intruder, "intruder", start, end) })
	vp.Assert("misaligned-attach-rejected", !failed && err != nil)
	// routing unchanged: the intruder is never reached, the earlier probes still are
	a := uint32(winBase) + uint32(vp.U16("offset"))
	vp.Assume(a < winBase+16*winSegs)
	before := [3]int{ps[0].reads, ps[1].reads, ps[2].reads}
	failedRead := vp.Try(func() { b.EaRead(a) })
	vp.Assert("rejected-attach-changes-no-routing", intruder.reads == 0 && intruder.writes == 0)
	after := ps[0].reads + ps[1].reads + ps[2].reads - before[0] - before[1] - before[2]
	vp.Assert("earlier-routing-still-in-force", (failedRead && after == 0) || (!failedRead && after == 1))
	vp.Reach("end")
}

// Dump: EaDump over [start,end] with start in segment seg0 (any offset inside it) and end in segment
// seg0+nseg (any offset), start <= end.
func Dump(layout int, seg0 int, nseg int) {
	b, ps, owner := build(layout)
	// the two low nibbles decide every loop count in EaDump: they are case-split (16 x 16 structural
	// choices per job) rather than left to the solver; buffer contents stay symbolic
	lo, hi := uint32(vp.Choose("start-nibble", 16)), uint32(vp.Choose("end-nibble", 16))
	start := uint32(winBase+16*seg0) + lo
	end := uint32(winBase+16*(seg0+nseg)) + hi
	vp.Assume(start <= end)
	vp.Tag("dump_start_unaligned", lo != 0)
	data := vp.Bytes("data", 16*(nseg+1)+4)
	orig := make([]byte, len(data))
	copy(orig, data)
	var n int
	failed := vp.Try(func() { n = b.EaDump(start, end, data) })
	vp.Assert("dump-completes", !failed)
	if failed {
		return
	}
	count := int(end-start) + 1
	vp.Assert("dump-returns-the-number-of-addresses", n == count)
	okAttached, okHoles, okBeyond := true, true, true
	for i := 0; i < len(data); i++ {
		if i >= count {
			if data[i] != orig[i] {
				okBeyond = false
			}
			continue
		}
		addr := start + uint32(i)
		own := -1
		for s := 0; s < winSegs; s++ {
			if int(addr-winBase)>>4 == s {
				own = owner[s]
			}
		}
		if own < 0 {
			if data[i] != orig[i] {
				okHoles = false
			}
		} else if data[i] != ps[own].value(addr) {
			okAttached = false
		}
	}
	vp.Assert("dump-position-i-holds-what-a-read-of-start+i-returns", okAttached)
	vp.Assert("dump-leaves-unattached-positions-untouched", okHoles)
	vp.Assert("dump-writes-nothing-beyond-the-range", okBeyond)
	vp.Reach("end")
}

// AfterDump: an ordinary access, a dump, another ordinary access. The dump range is concrete here (start
// nibble 3 of segment seg0, end nibble 9 of segment seg0+nseg; the contents of dumps are Dump's
// subject); the later read at an arbitrary window address must be routed by its own address.
func AfterDump(layout int, seg0 int, nseg int) {
	b, ps, owner := build(layout)
	start := uint32(winBase+16*seg0) + 3
	end := uint32(winBase+16*(seg0+nseg)) + 9
	data := make([]byte, 16*(nseg+1)+4)
	// an access before the dump as well (whatever the bus remembers of it must not outlive the dump)
	a0 := uint32(winBase) + uint32(vp.U16("offset-0"))
	vp.Assume(a0 < winBase+16*winSegs)
	vp.Try(func() { b.EaRead(a0) })
	failed := vp.Try(func() { b.EaDump(start, end, data) })
	vp.Assert("dump-completes", !failed)
	if failed {
		return
	}
	second(b, ps, &owner)
	vp.Reach("end")
}

// Devices: the library's own memory devices behind the bus. A RAM window ($0F40-$0F7F) and a ROM
// window ($0F80-$0FBF) with symbolic contents: a read returns the byte at (address - window start)
// of the device attached over the address, a write into the RAM window changes exactly that byte and
// no other device, and a dump across the RAM/ROM boundary returns what single reads return.
func Devices() {
	b, _ := bus.New()
	ram, rom := vp.Bytes("ram", 64), vp.Bytes("rom", 64)
	sram, srom := vp.Bytes("ram", 64), vp.Bytes("rom", 64)
	vp.Assert("aligned-attach-accepted", b.Attach(memory.NewRAM(ram, 0x0F40), "ram", 0x0F40, 0x0F7F) == nil)
	vp.Assert("aligned-attach-accepted", b.Attach(memory.NewROM(rom, 0x0F80), "rom", 0x0F80, 0x0FBF) == nil)
	a := uint32(0x0F40) + uint32(vp.U8("offset")&0x7F)
	inRAM := a < 0x0F80
	var want byte
	if inRAM {
		want = sram[a-0x0F40]
	} else {
		want = srom[a-0x0F80]
	}
	var got byte
	failed := vp.Try(func() { got = b.EaRead(a) })
	vp.Assert("attached-address-is-served", !failed)
	vp.Assert("device-read-returns-the-byte-at-address-minus-window-start", failed || got == want)
	// a write into the RAM window (what a ROM device does with a write is its own business)
	aw := uint32(0x0F40) + uint32(vp.U8("write-offset")&0x3F)
	v := vp.U8("value")
	failed = vp.Try(func() { b.EaWrite(aw, v) })
	vp.Assert("attached-address-accepts-writes", !failed)
	sram[aw-0x0F40] = v
	vp.Assert("write-changes-exactly-the-addressed-byte-of-the-ram-and-no-other-device", vp.BytesEqual(ram, sram) && vp.BytesEqual(rom, srom))
	data := vp.Bytes("dump", 36)
	orig := make([]byte, 36)
	copy(orig, data)
	lo := uint32(vp.Choose("start-nibble", 16))
	var n int
	failed = vp.Try(func() { n = b.EaDump(0x0F70+lo, 0x0F8F, data) })
	vp.Assert("dump-completes", !failed)
	if failed {
		return
	}
	count := int(0x0F8F-(0x0F70+lo)) + 1
	vp.Assert("dump-returns-the-number-of-addresses", n == count)
	ok, beyond := true, true
	for i := 0; i < 36; i++ {
		if i >= count {
			if data[i] != orig[i] {
				beyond = false
			}
			continue
		}
		ad := 0x0F70 + lo + uint32(i)
		var w byte
		if ad < 0x0F80 {
			w = sram[ad-0x0F40]
		} else {
			w = srom[ad-0x0F80]
		}
		if data[i] != w {
			ok = false
		}
	}
	vp.Assert("dump-position-i-holds-what-a-read-of-start+i-returns", ok)
	vp.Assert("dump-writes-nothing-beyond-the-range", beyond)
	vp.Reach("end")
}

// LargeDevice: a RAM device larger than one bank (128 KiB over $01:0000-$02:FFFF): a write at any
// address of the range changes exactly the byte at (address - range start), and a read returns it.
func LargeDevice() {
	b, _ := bus.New()
	ram, sram := vp.Bytes("ram", 0x20000), vp.Bytes("ram", 0x20000)
	vp.Assert("aligned-attach-accepted", b.Attach(memory.NewRAM(ram, 0x010000), "ram", 0x010000, 0x02FFFF) == nil)
	a := uint32(0x010000) + vp.U32("offset")&0x1FFFF
	v := vp.U8("value")
	failed := vp.Try(func() { b.EaWrite(a, v) })
	vp.Assert("attached-address-accepts-writes", !failed)
	sram[a-0x010000] = v
	vp.Assert("write-changes-exactly-the-addressed-byte-of-the-ram-and-no-other-device", vp.BytesEqual(ram, sram))
	var got byte
	failed = vp.Try(func() { got = b.EaRead(a) })
	vp.Assert("attached-address-is-served", !failed)
	vp.Assert("device-read-returns-the-byte-at-address-minus-window-start", failed || got == v)
	vp.Reach("end")
}
