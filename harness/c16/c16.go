// Package c16: emitting through Clone and Append is equivalent to emitting directly (C16).
//
// A program is a sequence of 4-bit op codes (least significant digit first):
//
//	1 NOP  2 LDA abs  3 SEP #f  4 REP #f  5 Label L0  6 Label L1  7 BNE L0  8 JMP_abs L1
//	9 EmitBytes(2 bytes)  10 Comment  11 LDA #imm8 (refused unless m is 8 bit)  12 BRA L1
package c16

import (
	"github.com/alttpo/snes/asm"

	"verif/vp"
)

type sink struct{ b []byte }

func (s *sink) Write(p []byte) (int, error) {
	s.b = append(s.b, p...)
	return len(p), nil
}

func apply(e *asm.Emitter, op int, i int) {
	tag := string(rune('a' + i))
	switch op {
	case 1:
		e.NOP()
	case 2:
		e.LDA_abs(vp.U16("abs" + tag))
	case 3:
		e.SEP(asm.Flags(vp.U8("sep" + tag)))
	case 4:
		e.REP(asm.Flags(vp.U8("rep" + tag)))
	case 5:
		e.Label("L0")
	case 6:
		e.Label("L1")
	case 7:
		e.BNE("L0")
	case 8:
		e.JMP_abs("L1")
	case 9:
		e.EmitBytes([]byte{vp.U8("d0" + tag), vp.U8("d1" + tag)})
	case 10:
		e.Comment("note " + tag)
	case 11:
		e.LDA_imm8_b(vp.U8("imm" + tag))
	case 12:
		e.BRA("L1")
	}
}

type snap struct {
	bytes  []byte
	n      int
	pc     uint32
	flags  asm.Flags
	l0, l1 uint32
	ok0    bool
	ok1    bool
	text   []byte
}

func snapshot(e *asm.Emitter) snap {
	var s snap
	s.n, s.pc, s.flags = e.Len(), e.PC(), e.Flags()
	s.bytes = make([]byte, s.n)
	copy(s.bytes, e.Bytes())
	s.l0, s.ok0 = e.GetLabel("L0")
	s.l1, s.ok1 = e.GetLabel("L1")
	w := &sink{}
	if vp.Try(func() { e.WriteTextTo(w) }) {
		s.text = nil
	} else {
		s.text = w.b
	}
	return s
}

func same(a, b snap) bool {
	if a.n != b.n || a.pc != b.pc || a.flags != b.flags || a.ok0 != b.ok0 || a.ok1 != b.ok1 {
		return false
	}
	if (a.ok0 && a.l0 != b.l0) || (a.ok1 && a.l1 != b.l1) {
		return false
	}
	return vp.BytesEqual(a.bytes, b.bytes) && vp.BytesEqual(a.text, b.text)
}

// Split feeds ops[0:nops] to emitter A directly and to emitter B as head ops[0:split], Clone, tail
// into the clone, Append.
func Split(prog int64, nops int, split int, withBase int, listing int) {
	var ops []int
	p := prog
	for i := 0; i < nops; i++ {
		ops = append(ops, int(p&15))
		p >>= 4
	}
	bufA, bufB, bufC := vp.Bytes("bufA", 24), vp.Bytes("bufB", 24), vp.Bytes("bufC", 24)
	a := asm.NewEmitter(bufA, listing == 1)
	b := asm.NewEmitter(bufB, listing == 1)
	fl := asm.Flags(vp.U8("tracked-flags"))
	a.AssumeSEP(fl)
	b.AssumeSEP(fl)
	if withBase == 1 {
		base := vp.U32("base")
		vp.Assume(base < 1<<24 && base&0xFFFF <= 0xFF00)
		a.SetBase(base)
		b.SetBase(base)
	}
	// direct; a call refused by a width guard is not part of "a sequence the emitter accepted":
	// the tracked flags are restricted (assumed) to those under which every call is accepted
	for i, op := range ops {
		vp.Assume(!vp.Try(func() { apply(a, op, i) }))
	}
	// head
	for i := 0; i < split; i++ {
		r := vp.Try(func() { apply(b, ops[i], i) })
		vp.Assert("head-accepted-like-the-direct-sequence", !r)
		vp.Assume(!r)
	}
	before := snapshot(b)
	c := b.Clone(bufC)
	refusedC := false
	for i := split; i < nops && !refusedC; i++ {
		if vp.Try(func() { apply(c, ops[i], i) }) {
			refusedC = true
		}
	}
	vp.Assert("clone-accepts-what-the-direct-emitter-accepted", !refusedC)
	if refusedC {
		return
	}
	vp.Assert("original-unaffected-until-append", same(before, snapshot(b)))
	b.Append(c)
	sa, sb := snapshot(a), snapshot(b)
	vp.Assert("same-length", sa.n == sb.n)
	vp.Assert("same-pc", sa.pc == sb.pc)
	vp.Assert("same-tracked-flags", sa.flags == sb.flags)
	vp.Assert("same-labels", sa.ok0 == sb.ok0 && sa.ok1 == sb.ok1 && (!sa.ok0 || sa.l0 == sb.l0) && (!sa.ok1 || sa.l1 == sb.l1))
	vp.Assert("same-bytes", vp.BytesEqual(sa.bytes, sb.bytes))
	vp.Assert("same-text-listing", vp.BytesEqual(sa.text, sb.text))
	errA, errB := a.Finalize(), b.Finalize()
	vp.Assert("same-finalize-outcome", (errA == nil) == (errB == nil))
	if errA != nil || errB != nil {
		// which operands a *failing* Finalize has already patched depends on Go's randomised map
		// order, for one emitter as much as for two: only the outcome is comparable
		vp.Reach("end")
		return
	}
	fa, fb := snapshot(a), snapshot(b)
	vp.Assert("same-finalized-bytes", vp.BytesEqual(fa.bytes, fb.bytes))
	vp.Assert("same-finalized-listing", vp.BytesEqual(fa.text, fb.text))
	vp.Reach("end")
}

// AppendTooBig: an Append that does not fit the remaining capacity is refused and leaves the
// original unmodified. headLen NOPs in an emitter of capacity cp, tailLen NOPs in the clone.
func AppendTooBig(cp, headLen, tailLen int, listing int) {
	bufB, bufC := vp.Bytes("bufB", cp+4)[:cp], vp.Bytes("bufC", 16) // the original's target has spare capacity behind it
	b := asm.NewEmitter(bufB, listing == 1)
	if vp.Choose("setbase", 2) == 1 {
		base := vp.U32("base")
		vp.Assume(base < 1<<24 && base&0xFFFF <= 0xFF00)
		b.SetBase(base)
	}
	for i := 0; i < headLen; i++ {
		b.EmitBytes([]byte{vp.U8("h" + string(rune('0'+i)))})
	}
	b.Label("L0")
	c := b.Clone(bufC)
	for i := 0; i < tailLen; i++ {
		c.EmitBytes([]byte{vp.U8("t" + string(rune('0'+i)))})
	}
	c.Label("L1")
	c.SEP(0x30)
	tail := tailLen + 2
	before := snapshot(b)
	refused := vp.Try(func() { b.Append(c) })
	vp.Assert("append-refused-exactly-when-it-does-not-fit", refused == (headLen+tail > cp))
	if refused {
		vp.Assert("refused-append-leaves-the-original-unmodified", same(before, snapshot(b)))
		vp.Reach("refused")
		return
	}
	vp.Assert("appended-length", b.Len() == headLen+tail)
	vp.Reach("appended")
}

// TwoClones: two clones taken from the same parent do not influence each other (nor the parent):
// clone A, after clone B has been worked on, ends up exactly like a lone clone of an identical
// parent that received the same calls. nrefs = number of still unresolved references to L0 (relative)
// and L1 (absolute) the parent holds when it is cloned.
func TwoClones(nrefs int, listing int) {
	mk := func(tag string) *asm.Emitter {
		e := asm.NewEmitter(vp.Bytes("buf"+tag, 48), listing == 1)
		for i := 0; i < nrefs; i++ {
			e.BNE("L0")
			e.JMP_abs("L1")
		}
		return e
	}
	p1, p2 := mk("1"), mk("2")
	before := snapshot(p1)
	a := p1.Clone(vp.Bytes("bufA", 32))
	b := p1.Clone(vp.Bytes("bufB", 32))
	lone := p2.Clone(vp.Bytes("bufL", 32))
	work := func(e *asm.Emitter, v uint8) {
		e.BNE("L0")
		e.JMP_abs("L1")
		e.EmitBytes([]byte{v})
	}
	va, vb := vp.U8("va"), vp.U8("vb")
	work(a, va)
	b.NOP()     // b's references sit at other addresses than a's ...
	work(b, vb) // ... and must not land in a's lists
	b.BEQ("L0")
	finish := func(e *asm.Emitter) {
		e.Label("L0")
		e.NOP()
		e.Label("L1")
	}
	work(lone, va)
	finish(a)
	finish(lone)
	vp.Assert("parent-unaffected-by-its-clones", same(before, snapshot(p1)))
	p1.Append(a)
	p2.Append(lone)
	e1, e2 := p1.Finalize(), p2.Finalize()
	vp.Assert("same-finalize-outcome", (e1 == nil) == (e2 == nil) && e1 == nil)
	s1, s2 := snapshot(p1), snapshot(p2)
	vp.Assert("clone-unaffected-by-a-sibling-clone", s1.n == s2.n && s1.pc == s2.pc && vp.BytesEqual(s1.bytes, s2.bytes) && vp.BytesEqual(s1.text, s2.text))
	vp.Reach("end")
}

// SharedFragment: one fragment (an emitter holding nlines listed instructions) appended to two
// separately created, still empty emitters, which then go different ways: each ends up exactly like
// an emitter that received the fragment's calls and its own directly, and the fragment itself is
// unchanged. (Append must copy what it takes: the emitters and the fragment share nothing.)
func SharedFragment(nlines int) {
	frag := func(e *asm.Emitter) {
		for i := 0; i < nlines; i++ {
			e.LDA_imm8_b(uint8(0x10 + i))
		}
	}
	mk := func(tag string) *asm.Emitter {
		e := asm.NewEmitter(vp.Bytes("buf"+tag, 64), true)
		e.AssumeSEP(0x30)
		return e
	}
	f := mk("F")
	frag(f)
	before := snapshot(f)
	a, b := mk("A"), mk("B")
	a.Append(f)
	b.Append(f)
	va, vb := vp.U16("va"), vp.U8("vb")
	ownA := func(e *asm.Emitter) {
		e.LDA_abs(va)
		e.NOP()
	}
	ownB := func(e *asm.Emitter) {
		e.Comment("b")
		e.LDA_imm8_b(vb)
		e.NOP()
		e.NOP()
	}
	ownA(a)
	ownB(b)
	ownA(a)
	da, db := mk("DA"), mk("DB")
	frag(da)
	ownA(da)
	ownA(da)
	frag(db)
	ownB(db)
	sa, sda, sb, sdb := snapshot(a), snapshot(da), snapshot(b), snapshot(db)
	vp.Assert("emitters-that-appended-one-fragment-stay-independent", sa.n == sda.n && sa.pc == sda.pc && vp.BytesEqual(sa.bytes, sda.bytes) && vp.BytesEqual(sa.text, sda.text) &&
		sb.n == sdb.n && sb.pc == sdb.pc && vp.BytesEqual(sb.bytes, sdb.bytes) && vp.BytesEqual(sb.text, sdb.text))
	vp.Assert("appended-fragment-is-unchanged", same(before, snapshot(f)))
	vp.Reach("end")
}
