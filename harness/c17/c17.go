// Package c17: 15-bit colour packing and MulDiv (property C17).
package c17

import (
	"github.com/alttpo/snes/color15"

	"verif/vp"
)

func scale(ch, mul, div uint8) uint8 {
	q := uint32(ch) * uint32(mul) / uint32(div)
	if q > 31 {
		q = 31
	}
	return uint8(q)
}

func UnpackPack() {
	c := color15.Color(vp.U16("c"))
	r, g, b := c.ToRGB()
	vp.Assert("channels-are-5-bit", r < 32 && g < 32 && b < 32)
	back := color15.ToColor15(r, g, b)
	vp.Assert("unpack-pack-identity-bit15-clear", back == c&0x7FFF)
	vp.Assert("channel-positions", uint16(r) == uint16(c)&31 && uint16(g) == uint16(c)>>5&31 && uint16(b) == uint16(c)>>10&31)
	vp.Reach("end")
}

func PackUnpack() {
	r, g, b := vp.U8("r"), vp.U8("g"), vp.U8("b")
	c := color15.ToColor15(r, g, b)
	vp.Assert("bit15-clear", c&0x8000 == 0)
	r2, g2, b2 := c.ToRGB()
	vp.Assert("pack-unpack-mod-32", r2 == r%32 && g2 == g%32 && b2 == b%32)
	vp.Reach("end")
}

func MulDiv() {
	c := color15.Color(vp.U16("c"))
	mul, div := vp.U8("mul"), vp.U8("div")
	vp.Assume(div != 0)
	got := c.MulDiv(mul, div)
	r, g, b := c.ToRGB()
	gr, gg, gb := got.ToRGB()
	vp.Assert("red-scaled-saturated", gr == scale(r, mul, div))
	vp.Assert("green-scaled-saturated", gg == scale(g, mul, div))
	vp.Assert("blue-scaled-saturated", gb == scale(b, mul, div))
	vp.Assert("bit15-clear", got&0x8000 == 0)
	vp.Assert("result-is-the-packing-of-its-channels", got == color15.ToColor15(gr, gg, gb))
	vp.Reach("end")
}

func MulDivIdentity() {
	c := color15.Color(vp.U16("c"))
	k := vp.U8("k")
	vp.Assume(k != 0)
	vp.Assert("equal-mul-div-is-identity", c.MulDiv(k, k) == c&0x7FFF)
	vp.Reach("end")
}

// Monotonicity. The property states "a larger ratio never darkens a channel" as a consequence of
// the exact formula (each channel is min(floor(ch*mul/div), 31)). It is decided that way: job
// c17/muldiv proves, on the real MulDiv, that every channel equals the formula for every colour,
// multiplicand and divisor; the two jobs below prove that the formula is monotone in the
// multiplicand and antitone in the divisor. Asking the solver for monotonicity of the
// implementation directly worked on the current source but not on three behaviour-preserving
// rewrites of MulDiv (helper with early return, 32-bit field arithmetic, unpacked struct): the
// verdict depended on how the arithmetic happens to be written. A wrong MulDiv is reported by
// c17/muldiv.

// MulDivMonotoneMul: with the divisor fixed, a larger multiplicand never darkens a channel.
func MulDivMonotoneMul() {
	ch := vp.U8("ch")
	m1, m2, d := vp.U8("m1"), vp.U8("m2"), vp.U8("d")
	vp.Assume(ch < 32 && d != 0 && m1 >= m2)
	vp.Assert("larger-multiplicand-never-darkens-a-channel", scale(ch, m1, d) >= scale(ch, m2, d))
	vp.Reach("end")
}

// MulDivMonotoneDiv: with the multiplicand fixed, a smaller divisor never darkens a channel.
func MulDivMonotoneDiv() {
	ch := vp.U8("ch")
	m, d1, d2 := vp.U8("m"), vp.U8("d1"), vp.U8("d2")
	vp.Assume(ch < 32 && d1 != 0 && d2 != 0 && d1 <= d2)
	vp.Assert("smaller-divisor-never-darkens-a-channel", scale(ch, m, d1) >= scale(ch, m, d2))
	vp.Reach("end")
}

// MulDivMonotone: a larger ratio never darkens a channel (general form, one channel value
// per job: ch is concrete, the two ratios are symbolic).
func MulDivMonotone(ch int) {
	c := color15.ToColor15(uint8(ch), uint8(ch), uint8(ch))
	m1, d1, m2, d2 := vp.U8("m1"), vp.U8("d1"), vp.U8("m2"), vp.U8("d2")
	vp.Assume(d1 != 0 && d2 != 0)
	vp.Assume(uint32(m1)*uint32(d2) >= uint32(m2)*uint32(d1)) // m1/d1 >= m2/d2
	r1, g1, b1 := c.MulDiv(m1, d1).ToRGB()
	r2, g2, b2 := c.MulDiv(m2, d2).ToRGB()
	vp.Assert("larger-ratio-never-darkens-red", r1 >= r2)
	vp.Assert("larger-ratio-never-darkens-green", g1 >= g2)
	vp.Assert("larger-ratio-never-darkens-blue", b1 >= b2)
	vp.Reach("end")
}

func Luminosity() {
	c := color15.Color(vp.U16("c"))
	r, g, b := c.ToRGB()
	vp.Assert("luminosity-is-integer-mean", uint32(c.Luminosity()) == (uint32(r)+uint32(g)+uint32(b))/3)
	vp.Reach("end")
}
