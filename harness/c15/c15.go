// Package c15: assembler listings reproduce exactly the bytes that were emitted (C15).
//
// A program is a sequence of 4-bit op codes (least significant digit first):
//
//	1 NOP  2 LDA #imm8  3 LDA abs  4 LDA long  5 Label  6 BNE L0 (reference)  7 JMP L0 (reference)
//	8-11  Comment of CommentLens[tbl][op-8] characters      12-15 data block of DataLens[tbl][op-12] bytes
//
// All operands and data bytes are symbolic. The harness keeps its own list of what was issued and
// walks both listings with it.
package c15

import (
	"github.com/alttpo/snes/asm"

	"verif/vp"
)

var CommentLens = [2][4]int{{0, 1, 120, 300}, {5, 119, 121, 200}}
var DataLens = [2][4]int{{1, 16, 17, 33}, {0, 15, 32, 2}}

const (
	kIns = iota
	kData
	kLabel
	kComment
	kBase
)

type item struct {
	kind int
	addr uint32
	off  int // offset of the first byte in Bytes()
	n    int // number of bytes
	text string
}

type sink struct{ b []byte }

func (s *sink) Write(p []byte) (int, error) {
	s.b = append(s.b, p...)
	return len(p), nil
}

func hexval(c byte) byte { return c&0xF + 9*(c>>6) }

func isHexDigit(c byte) bool { return (c >= '0' && c <= '9') || (c >= 'a' && c <= 'f') }

// eol returns the index of the next newline at or after i (searching concrete bytes only).
func eol(out []byte, i int) int {
	for i < len(out) && !(vp.IsConcrete(out[i]) && out[i] == '\n') {
		i++
	}
	return i
}

// find returns the first index in [i,end) where pat occurs among concrete bytes, or -1.
func find(out []byte, i, end int, pat string) int {
	for ; i+len(pat) <= end; i++ {
		ok := true
		for k := 0; k < len(pat); k++ {
			if !vp.IsConcrete(out[i+k]) || out[i+k] != pat[k] {
				ok = false
				break
			}
		}
		if ok {
			return i
		}
	}
	return -1
}

// commentText: n bytes of text; comments are byte strings, so from five bytes on the text also
// holds a two-byte UTF-8 letter, a byte that is not valid UTF-8 and a character whose code point,
// cut to one byte, would be a line feed (U+010A).
func commentText(n int) string {
	s := make([]byte, n)
	for i := range s {
		s[i] = byte('a' + i%26)
	}
	if n >= 5 {
		s[1], s[2], s[3] = 0xC3, 0xA9, 0xFF
	}
	if n >= 8 {
		s[5], s[6] = 0xC4, 0x8A
	}
	return string(s)
}

var labelNames = [3]string{"L0", "L1", "L2"}

// Listing drives the emitter, then checks WriteHexTo and WriteTextTo against the books.
func Listing(prog int64, nops int, tbl int, withBase int, finalize int) {
	listing(prog, nops, tbl, withBase, finalize, -1, 0)
}

// Pieces: the same, with the calls from index split on issued to a Clone that is appended back
// before the listings are produced (a listing is a property of the call sequence, however it was
// assembled), and - alias == 1 - with data blocks whose source is the front of the target buffer
// itself (overlapping the place they are emitted to).
func Pieces(prog int64, nops int, tbl int, withBase int, finalize int, split int, alias int) {
	listing(prog, nops, tbl, withBase, finalize, split, alias)
}

func listing(prog int64, nops int, tbl int, withBase int, finalize int, split int, alias int) {
	buf := vp.Bytes("buf", 160)
	e := asm.NewEmitter(buf, true)
	e.AssumeSEP(0x30)
	base := uint32(0)
	var items []item
	if withBase == 1 {
		base = vp.U32("base")
		vp.Assume(base < 1<<24 && base&0xFFFF <= 0xFF00)
		e.SetBase(base)
	}
	baseShown := withBase == 0
	cur, off0 := e, 0 // the emitter that receives the calls, and where its bytes will sit in the whole
	note := func(kind, n int, text string) {
		if !baseShown && kind != kLabel { // the base directive is written in front of the first listed line
			items = append(items, item{kind: kBase, addr: cur.PC()})
			baseShown = true
		}
		items = append(items, item{kind: kind, addr: cur.PC(), off: off0 + cur.Len(), n: n, text: text})
	}
	nLabels := 0
	refL0 := false
	p := prog
	for i := 0; i < nops; i++ {
		op := int(p & 15)
		p >>= 4
		tag := string(rune('a' + i))
		if i == split {
			off0 = e.Len()
			cur = e.Clone(vp.Bytes("piece", 160))
		}
		switch {
		case op == 1:
			note(kIns, 1, "")
			cur.NOP()
		case op == 2:
			note(kIns, 2, "")
			cur.LDA_imm8_b(vp.U8("imm" + tag))
		case op == 3:
			note(kIns, 3, "")
			cur.LDA_abs(vp.U16("abs" + tag))
		case op == 4:
			note(kIns, 4, "")
			cur.LDA_long(vp.U32("long" + tag))
		case op == 5:
			if nLabels < 3 {
				note(kLabel, 0, labelNames[nLabels])
				cur.Label(labelNames[nLabels])
				nLabels++
			}
		case op == 6:
			note(kIns, 2, "")
			cur.BNE("L0")
			refL0 = true
		case op == 7:
			note(kIns, 3, "")
			cur.JMP_abs("L0")
			refL0 = true
		case op >= 8 && op <= 11:
			t := commentText(CommentLens[tbl][op-8])
			note(kComment, 0, t)
			cur.Comment(t)
		case op >= 12:
			n := DataLens[tbl][op-12]
			// a data block is listed in lines of at most 16 bytes
			addr, off := cur.PC(), off0+cur.Len()
			if !baseShown { // an (even empty) data block is an emission: the pending base directive is listed
				items = append(items, item{kind: kBase, addr: addr})
				baseShown = true
			}
			for k := 0; k < n; k += 16 {
				m := n - k
				if m > 16 {
					m = 16
				}
				items = append(items, item{kind: kData, addr: addr + uint32(k), off: off + k, n: m})
			}
			if alias == 1 {
				cur.EmitBytes(buf[:n])
			} else {
				cur.EmitBytes(vp.Bytes("data"+tag, n))
			}
		}
	}
	if cur != e {
		e.Append(cur)
	}
	if finalize == 1 {
		if refL0 && nLabels == 0 {
			e.Label("L0") // resolve the reference so that Finalize succeeds
			items = append(items, item{kind: kLabel, addr: e.PC(), off: e.Len(), text: "L0"})
		}
		// listings may be produced at any time; what was listed before Finalize must not stick
		vp.Try(func() { e.WriteTextTo(&sink{}) })
		vp.Try(func() { e.WriteHexTo(&sink{}) })
		err := e.Finalize()
		vp.Assume(err == nil)
	}
	code := make([]byte, e.Len())
	copy(code, e.Bytes())
	n0, pc0 := e.Len(), e.PC()

	// ---------------------------------------------------------------- hex listing
	hs := &sink{}
	var herr error
	hfail := vp.Try(func() { herr = e.WriteHexTo(hs) })
	vp.Assert("hex-listing-never-fails", !hfail && herr == nil)
	if !hfail {
		out := hs.b
		var got []byte
		okDigits := true
		for i := 0; i < len(out); {
			end := eol(out, i)
			if i+1 < end && out[i] == '/' && out[i+1] == '/' { // base / comment / label line
				i = end + 1
				continue
			}
			j := i
			for j+4 < end && out[j] == '0' && out[j+1] == 'x' {
				hi, lo := out[j+2], out[j+3]
				if !isHexDigit(hi) || !isHexDigit(lo) {
					okDigits = false
				}
				got = append(got, hexval(hi)<<4|hexval(lo))
				j += 5 // "0xNN,"
				if j+2 < end && out[j] == ' ' && out[j+1] == '0' && out[j+2] == 'x' {
					j++
				} else {
					break
				}
			}
			i = end + 1
		}
		vp.Assert("hex-listing-digits-are-hex", okDigits)
		same := len(got) == len(code)
		vp.Assert("hex-listing-has-exactly-as-many-bytes-as-emitted", same)
		if same {
			eq := true
			for i := range code {
				if got[i] != code[i] {
					eq = false
				}
			}
			vp.Assert("hex-listing-bytes-equal-emitted-bytes-in-order", eq)
		}
	}

	// ---------------------------------------------------------------- text listing
	ts := &sink{}
	var terr error
	tfail := vp.Try(func() { terr = e.WriteTextTo(ts) })
	vp.Assert("text-listing-never-fails", !tfail && terr == nil)
	if !tfail {
		out := ts.b
		i := 0
		structure, addrs, bytesOK := true, true, true
		parseAddr := func(j int) uint32 {
			var a uint32
			for k := 0; k < 6; k++ {
				a = a<<4 | uint32(hexval(out[j+k]))
			}
			return a
		}
		for _, it := range items {
			if i >= len(out) {
				structure = false
				break
			}
			end := eol(out, i)
			switch it.kind {
			case kBase:
				j := find(out, i, end, "base $")
				if j != i || end-i != 12 {
					structure = false
				} else if parseAddr(i+6) != it.addr {
					addrs = false
				}
			case kLabel:
				want := it.text + ":"
				if end-i != len(want) || find(out, i, end, want) != i {
					structure = false
				}
			case kComment:
				if find(out, i, end, "; "+it.text) < 0 && !(len(it.text) == 0 && find(out, i, end, ";") >= 0) {
					structure = false
				}
			case kIns:
				j := find(out, i, end, " ; $")
				if j < 0 || j+10 > end {
					structure = false
					break
				}
				if parseAddr(j+4) != it.addr {
					addrs = false
				}
				k := j + 10 // after the six address digits
				for k < end && vp.IsConcrete(out[k]) && out[k] == ' ' {
					k++
				}
				for b := 0; b < it.n; b++ {
					if k+2 > end {
						bytesOK = false
						break
					}
					if hexval(out[k])<<4|hexval(out[k+1]) != code[it.off+b] || !isHexDigit(out[k]) || !isHexDigit(out[k+1]) {
						bytesOK = false
					}
					k += 2
					if b+1 < it.n {
						if k < end && out[k] == ' ' {
							k++
						} else {
							bytesOK = false
							break
						}
					}
				}
				// nothing but an (optional) dangling-reference warning may follow the bytes
				if k < end && find(out, k, end, "!!") < 0 {
					bytesOK = false
				}
			case kData:
				j := find(out, i, end, "; $")
				if j < 0 || j+9 > end {
					structure = false
					break
				}
				if parseAddr(j+3) != it.addr {
					addrs = false
				}
				i = end + 1 // the bytes are on the following line
				if i >= len(out) {
					structure = false
					break
				}
				end = eol(out, i)
				k := find(out, i, end, "db ")
				if k < 0 {
					structure = false
					break
				}
				k += 3
				for b := 0; b < it.n; b++ {
					if k+3 > end || out[k] != '$' {
						bytesOK = false
						break
					}
					if hexval(out[k+1])<<4|hexval(out[k+2]) != code[it.off+b] || !isHexDigit(out[k+1]) || !isHexDigit(out[k+2]) {
						bytesOK = false
					}
					k += 3
					if b+1 < it.n {
						if k+2 <= end && out[k] == ',' && out[k+1] == ' ' {
							k += 2
						} else {
							bytesOK = false
							break
						}
					}
				}
				if k != end {
					bytesOK = false
				}
			}
			i = end + 1
		}
		if i < len(out) {
			structure = false // extra lines
		}
		vp.Assert("text-listing-lines-appear-in-issue-order", structure)
		vp.Assert("text-listing-shows-the-true-address", addrs)
		vp.Assert("text-listing-shows-exactly-the-emitted-bytes", bytesOK)
	}
	// producing listings must not alter the program
	unchanged := e.Len() == n0 && e.PC() == pc0
	if unchanged {
		now := e.Bytes()
		for i := range code {
			if now[i] != code[i] {
				unchanged = false
			}
		}
	}
	vp.Assert("listing-does-not-alter-the-program", unchanged)
	vp.Reach("end")
}
