// Package harness holds helpers shared by the property harnesses.
package harness

import (
	"github.com/alttpo/snes/mapping/exhirom"
	"github.com/alttpo/snes/mapping/hirom"
	"github.com/alttpo/snes/mapping/lorom"
	"github.com/alttpo/snes/mapping/sa1rom"
)

// BusToPak / PakToBus select a mapper by the cartmap numbering (0 LoROM, 1 HiROM, 2 ExHiROM, 3 SA-1).
func BusToPak(m int, a uint32) (uint32, error) {
	switch m {
	case 0:
		return lorom.BusAddressToPak(a)
	case 1:
		return hirom.BusAddressToPak(a)
	case 2:
		return exhirom.BusAddressToPak(a)
	}
	return sa1rom.BusAddressToPak(a)
}

func PakToBus(m int, a uint32) (uint32, error) {
	switch m {
	case 0:
		return lorom.PakAddressToBus(a)
	case 1:
		return hirom.PakAddressToBus(a)
	case 2:
		return exhirom.PakAddressToBus(a)
	}
	return sa1rom.PakAddressToBus(a)
}

var MapperNames = []string{"lorom", "hirom", "exhirom", "sa1rom"}
